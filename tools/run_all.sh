#!/bin/bash
# usage: tools/run_all.sh <tier>   -- runs every registered check once, prints a one-line summary each
tier=${1:-quick}
cd "$(dirname "$0")/.."
for p in $(python3 -c "import json; print(' '.join(c['property_id'] for c in json.load(open('MANIFEST.json'))['checks']))"); do
  s=$(date +%s)
  out=$(./check $p --tier $tier 2>&1); rc=$?
  e=$(date +%s)
  echo "== $p tier=$tier exit=$rc wall=$((e-s))s"
  echo "$out" | grep -E "^property=|^VIOLATION|^INCONCLUSIVE|^OK" | cut -c1-300
done
