#!/bin/bash
# usage: tools/seeded_eval.sh <seeded-id> <property>...   -- applies /verif/seeded/<id>/patch.diff to /repo, runs the quick checks, undoes it
id=$1; shift
cd /repo || exit 2
if ! git diff --quiet; then echo "/repo has uncommitted changes"; exit 2; fi
p=/verif/seeded/$id/patch.diff
[ -f /verif/seeded/$id/patch_on_fixed_tree.diff ] && p=/verif/seeded/$id/patch_on_fixed_tree.diff
if ! git apply $p; then echo "$id: patch does not apply"; exit 2; fi
cd /verif
for prop in "$@"; do
  out=$(./check $prop --tier ${TIER:-quick} 2>&1); rc=$?
  echo "[$id] check $prop -> exit $rc"
  echo "$out" | grep -E "^VIOLATION|^INCONCLUSIVE|^OK" | cut -c1-400 | head -5
done
git -C /repo checkout -- .
