#!/bin/bash
# usage: tools/seeded_eval.sh <seeded-id> <property>...
# Applies /verif/seeded/<id>/patch.diff to a scratch copy of /repo's HEAD (under /tmp, removed afterwards) and runs the
# checks against that copy (VERIF_REPO), so that /repo itself and checks running concurrently are not disturbed.
id=$1; shift
p=/verif/seeded/$id/patch.diff
[ -f /verif/seeded/$id/patch_on_fixed_tree.diff ] && p=/verif/seeded/$id/patch_on_fixed_tree.diff
scratch=$(mktemp -d /tmp/seeded_${id}_XXXX)
git -C /repo archive HEAD | tar -x -C "$scratch"
if ! (cd "$scratch" && patch -s -p1 < "$p"); then echo "$id: patch does not apply"; rm -rf "$scratch"; exit 2; fi
cd /verif
for prop in "$@"; do
  out=$(VERIF_REPO="$scratch" ./check $prop --tier ${TIER:-quick} 2>&1); rc=$?
  echo "[$id] check $prop -> exit $rc"
  echo "$out" | grep -E "^VIOLATION|^INCONCLUSIVE|^OK" | cut -c1-400 | head -5
done
rm -rf "$scratch"
