#!/usr/bin/env python3
"""usage: python3-vt tools/full_validation.py [SCENARIO...]  -- explores every scenario of every plan with EVERY path translator-validated
against the native build (and V8-compared for the C01 expression scenarios); prints disagreements.  ~1 h on 16 cores."""
import sys, time, os, json
sys.path.insert(0,'/verif/mirsym')
import mirror, runner, props
b = mirror.build()
names = {id(v): k for k, v in vars(props).items() if isinstance(v, dict) and 'scenario' in v and 'label' in v}
c01 = set(id(pl) for t in ('quick','thorough') for pl in props.PLANS['C01'][t])
seen = []
for prop in sorted(props.PLANS):
    for t in ('quick', 'thorough'):
        for pl in props.PLANS[prop][t]:
            if id(pl) not in [id(x) for x in seen]:
                seen.append(pl)
only = sys.argv[1:]
ex = runner.Explorer(b, 'props', 16)
for pl in seen:
    n = names.get(id(pl), '?')
    if only and n not in only:
        continue
    args = pl['args']
    if id(pl) in c01 and pl['scenario'] == 'block_expr':
        args = dict(args, v8=1)
    t = time.time()
    r = ex.explore(pl['scenario'], args, tv_every=1, deadline=t + 3000)
    print(n, 'paths', r['paths'], 'tv', r['tv'], 'tv_bad', len(r['tv_bad']), 'v8', r['v8']['compared'], 'v8_bad', r['v8']['v8_differs_model_equal'], (r['error'] or '').split('\n')[0][:160], '%.0fs' % (time.time() - t), flush=True)
    for x in r['tv_bad'][:2]:
        print('   TVBAD', json.dumps(x)[:700], flush=True)
    seenk = set()
    for x in r['v8_bad']:
        k = json.dumps(x['v8'].get('in_event')) + json.dumps(x['v8'].get('out_event'))
        if k in seenk: continue
        seenk.add(k)
        print('   V8BAD', json.dumps(x)[:1200], flush=True)
ex.close()
