#!/usr/bin/env python3
"""usage: python3-vt tools/size.py <PLAN> [deadline_s]  -- explores one scenario with all cores and reports its size"""
import sys, time, os
sys.path.insert(0, os.path.join(os.path.dirname(os.path.abspath(__file__)), '..', 'mirsym'))
import mirror, runner, props
b = mirror.build()
pl = getattr(props, sys.argv[1])
dl = float(sys.argv[2]) if len(sys.argv) > 2 else 600
ex = runner.Explorer(b, 'props', 16)
t = time.time()
r = ex.explore(pl['scenario'], pl['args'], tv_every=3, deadline=t + dl)
ex.close()
print(sys.argv[1], 'paths', r['paths'], 'exhaustive', r['exhaustive'], 'wall %.0fs' % (time.time() - t), 'tv', r['tv'], 'tv_bad', len(r['tv_bad']), 'err', (r['error'] or '')[:200])
import collections
for k, n in collections.Counter((v['prop'], v['role']) for v in r['violations']).most_common(12):
    print('  VIOL', k, n)
for tb in r['tv_bad'][:2]:
    print('  TVBAD', str(tb)[:400])
