#!/usr/bin/env python3
"""prints the scenario inventory (markdown): scenario -> label, properties (quick / thorough)"""
import sys, os
sys.path.insert(0, os.path.join(os.path.dirname(os.path.abspath(__file__)), '..', 'mirsym'))
import props
names = {id(v): k for k, v in vars(props).items() if isinstance(v, dict) and 'scenario' in v and 'label' in v}
rows = {}
for prop, tiers in sorted(props.PLANS.items()):
    for tier in ('quick', 'thorough'):
        for pl in tiers[tier]:
            n = names.get(id(pl), '?')
            rows.setdefault(n, {'label': pl['label'], 'quick': [], 'thorough': []})[tier].append(prop)
print('| scenario | bounded input space | quick | thorough only |')
print('|---|---|---|---|')
for n in sorted(rows):
    r = rows[n]
    q = ' '.join(r['quick'])
    t = ' '.join(p for p in r['thorough'] if p not in r['quick'])
    print('| `%s` | %s | %s | %s |' % (n, r['label'].replace('|', '\\|'), q or '—', t or '—'))
