#!/bin/bash
# usage: tools/benign_eval.sh <seeded-id> [property...]
# A behaviour-preserving change (seeded/<id>/patch.diff) must not raise an alarm: every check must end without a VIOLATION line
# (exit 0; exit 2 = the engine could not encode the changed code, which is reported but is not an alarm).
id=$1; shift
props="$@"
[ -z "$props" ] && props=$(python3 -c "import json; print(' '.join(c['property_id'] for c in json.load(open('/verif/MANIFEST.json'))['checks']))")
scratch=$(mktemp -d /tmp/benign_${id}_XXXX)
git -C /repo archive HEAD | tar -x -C "$scratch"
if ! (cd "$scratch" && patch -s -p1 < /verif/seeded/$id/patch.diff); then echo "$id: patch does not apply"; rm -rf "$scratch"; exit 2; fi
cd /verif
for prop in $props; do
  out=$(VERIF_REPO="$scratch" ./check $prop --tier ${TIER:-quick} 2>&1); rc=$?
  echo "[$id] check $prop -> exit $rc"
  echo "$out" | grep -E "^VIOLATION|^INCONCLUSIVE" | cut -c1-600 | head -3
done
rm -rf "$scratch"
