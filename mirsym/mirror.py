"""Builds the two artefacts every check needs from /repo's *current working tree*:

  * mir.txt         -- rustc's MIR dump of the repository crate (nightly, -Zunpretty=mir, mir-opt-level 0)
  * verif-replay    -- a native binary of the same sources + an appended replay driver module

Both are produced in a scratch copy outside /repo and /verif (removed afterwards); the
results are cached under /verif/.cache/<sha of the source tree>/ so that the sixteen
checks of one run share one build.  A changed source tree has a different key, i.e. is
always rebuilt.
"""
import fcntl
import hashlib
import os
import shutil
import subprocess
import sys
import time

VERIF = os.path.dirname(os.path.dirname(os.path.abspath(__file__)))
REPO = os.environ.get('VERIF_REPO', '/repo')
CACHE = os.path.join(VERIF, '.cache')
FILES = ['Cargo.toml', 'Cargo.lock', 'build.rs', 'tracer_logger.js']


def tree_key(repo=REPO):
    h = hashlib.sha256()
    paths = []
    for root, _dirs, files in os.walk(os.path.join(repo, 'src')):
        for f in files:
            paths.append(os.path.join(root, f))
    for f in FILES:
        paths.append(os.path.join(repo, f))
    for p in sorted(paths):
        if not os.path.exists(p):
            continue
        h.update(os.path.relpath(p, repo).encode())
        h.update(b'\0')
        h.update(open(p, 'rb').read())
        h.update(b'\0')
    for extra in ('replay/verif_replay.rs', 'replay/verif_normalize.rs', 'replay/main.rs', 'mirsym/mirror.py'):
        h.update(open(os.path.join(VERIF, extra), 'rb').read())
    return h.hexdigest()[:20]


def copy_tree(repo, dest):
    if os.path.exists(dest):
        shutil.rmtree(dest)
    os.makedirs(dest)
    shutil.copytree(os.path.join(repo, 'src'), os.path.join(dest, 'src'), copy_function=shutil.copyfile)
    for f in FILES:
        if os.path.exists(os.path.join(repo, f)):
            shutil.copyfile(os.path.join(repo, f), os.path.join(dest, f))


def patch_manifest(dest, with_bin):
    p = os.path.join(dest, 'Cargo.toml')
    s = open(p).read()
    s = s.replace('crate-type = ["cdylib"]', 'crate-type = ["rlib"]')
    if with_bin:
        s = s.replace('[dev-dependencies]', 'serde_json = "1"\n\n[dev-dependencies]', 1)
        s += '\n[[bin]]\nname = "verif-replay"\npath = "verif_main.rs"\n'
    s += '\n[patch.crates-io]\nahash = { path = "%s" }\n' % os.path.join(VERIF, 'vendor', 'ahash-0.7.6')
    open(p, 'w').write(s)


def env(target):
    e = dict(os.environ)
    e['CARGO_NET_OFFLINE'] = 'true'
    e['CARGO_TARGET_DIR'] = target
    e.pop('RUSTFLAGS', None)
    return e


def run(cmd, cwd, e, log):
    with open(log, 'ab') as lf:
        lf.write(('\n$ ' + ' '.join(cmd) + '\n').encode())
        lf.flush()
        r = subprocess.run(cmd, cwd=cwd, env=e, stdout=subprocess.PIPE, stderr=lf)
    return r


def build(repo=REPO, need_replay=True, verbose=True):
    """Returns dict(key, dir, mir, replay, src) ; builds what is missing."""
    key = tree_key(repo)
    out = os.path.join(CACHE, key)
    os.makedirs(out, exist_ok=True)
    lock = open(os.path.join(CACHE, 'build.lock'), 'w')
    fcntl.flock(lock, fcntl.LOCK_EX)
    try:
        mir = os.path.join(out, 'mir.txt')
        replay = os.path.join(out, 'verif-replay')
        srcsnap = os.path.join(out, 'src')
        log = os.path.join(out, 'build.log')
        scratch_root = os.environ.get('VERIF_SCRATCH', '/tmp/verif-scratch')
        if not os.path.exists(mir) or not os.path.exists(srcsnap):
            t = time.time()
            sc = os.path.join(scratch_root, 'mir')
            copy_tree(repo, sc)
            patch_manifest(sc, False)
            e = env(os.path.join(CACHE, 'target-mir'))
            r = run(['cargo', '+nightly', 'rustc', '--offline', '--lib', '--', '-Zunpretty=mir', '-Zmir-opt-level=0', '-C', 'debug-assertions=off', '-C', 'overflow-checks=on'], sc, e, log)
            if r.returncode != 0 or not r.stdout:
                shutil.rmtree(sc, ignore_errors=True)
                raise RuntimeError('MIR dump failed (see %s)' % log)
            open(mir + '.tmp', 'wb').write(r.stdout)
            os.replace(mir + '.tmp', mir)
            if os.path.exists(srcsnap):
                shutil.rmtree(srcsnap)
            shutil.copytree(os.path.join(sc, 'src'), srcsnap)
            shutil.rmtree(sc, ignore_errors=True)
            if verbose:
                print('[mirror] MIR dump %.1fs (%d bytes) key=%s' % (time.time() - t, os.path.getsize(mir), key), file=sys.stderr)
        if need_replay and not os.path.exists(replay):
            t = time.time()
            sc = os.path.join(scratch_root, 'replay')
            copy_tree(repo, sc)
            patch_manifest(sc, True)
            with open(os.path.join(sc, 'src', 'lib.rs'), 'a') as f:
                f.write('\n' + open(os.path.join(VERIF, 'replay', 'verif_replay.rs')).read())
            with open(os.path.join(sc, 'src', 'rewriter.rs'), 'a') as f:
                f.write('\n' + open(os.path.join(VERIF, 'replay', 'verif_normalize.rs')).read())
            shutil.copyfile(os.path.join(VERIF, 'replay', 'main.rs'), os.path.join(sc, 'verif_main.rs'))
            e = env(os.path.join(CACHE, 'target-replay'))
            r = run(['cargo', 'build', '--offline', '--bin', 'verif-replay'], sc, e, log)
            if r.returncode != 0:
                shutil.rmtree(sc, ignore_errors=True)
                raise RuntimeError('replay build failed (see %s)' % log)
            shutil.copyfile(os.path.join(CACHE, 'target-replay', 'debug', 'verif-replay'), replay + '.tmp')
            os.chmod(replay + '.tmp', 0o755)
            os.replace(replay + '.tmp', replay)
            shutil.rmtree(sc, ignore_errors=True)
            if verbose:
                print('[mirror] replay build %.1fs' % (time.time() - t), file=sys.stderr)
        # prune old keys (keep 6 most recent)
        keys = [d for d in os.listdir(CACHE) if len(d) == 20 and os.path.isdir(os.path.join(CACHE, d))]
        keys.sort(key=lambda d: os.path.getmtime(os.path.join(CACHE, d)), reverse=True)
        for d in keys[6:]:
            if d != key:
                shutil.rmtree(os.path.join(CACHE, d), ignore_errors=True)
        os.utime(out, None)
    finally:
        fcntl.flock(lock, fcntl.LOCK_UN)
        lock.close()
    return {'key': key, 'dir': out, 'mir': mir, 'replay': replay, 'src': srcsnap}


if __name__ == '__main__':
    t = time.time()
    r = build(need_replay='--no-replay' not in sys.argv)
    print(r, '%.1fs' % (time.time() - t))
