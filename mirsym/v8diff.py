"""Client for v8diff.js: runs an input program and its rewritten output in Node (V8) with recording realms and compares them.
Used as a *validation of the semantic model* (jsorder.py) behind C01 and as confirmation of C01 counterexamples; it decides nothing."""
import json
import os
import re
import select
import shutil
import subprocess

HERE = os.path.dirname(os.path.abspath(__file__))
KEYWORDS = set('''break case catch class const continue debugger default delete do else export extends finally for function if import in
instanceof new return super switch this throw try typeof var void while with yield let static async await of null true false undefined'''.split())


def free_names(code, limit=3):
    """identifier-like tokens that are not keywords, property names after a dot, or injected names"""
    names = []
    for m in re.finditer(r'(?<![\w$.#])([A-Za-z_$][\w$]*)', re.sub(r'"(?:[^"\\]|\\.)*"|\'(?:[^\'\\]|\\.)*\'|`', ' ', code)):
        n = m.group(1)
        if n in KEYWORDS or n.startswith('__datadog_') or n == '_ddiast' or n in names:
            continue
        names.append(n)
    return names[:limit]


class V8Diff:
    def __init__(self):
        self.node = shutil.which('node') or shutil.which('nodejs')
        self.p = None
        self.n = 0

    def available(self):
        return self.node is not None

    def start(self):
        self.p = subprocess.Popen([self.node, os.path.join(HERE, 'v8diff.js')], stdin=subprocess.PIPE, stdout=subprocess.PIPE, stderr=subprocess.DEVNULL, text=True, bufsize=1)

    def compare(self, a, b, names=None, timeout=20):
        """-> dict(verdict = equal | differ | skipped | error, ...)"""
        if not self.available():
            return {'verdict': 'skipped', 'why': 'node not installed'}
        if self.p is None or self.p.poll() is not None:
            self.start()
        self.n += 1
        req = {'id': self.n, 'a': a, 'b': b, 'names': names if names is not None else free_names(a)}
        try:
            self.p.stdin.write(json.dumps(req) + '\n')
            self.p.stdin.flush()
            r, _, _ = select.select([self.p.stdout], [], [], timeout)
            if not r:
                self.p.kill()
                self.p = None
                return {'verdict': 'skipped', 'why': 'no answer within %ds' % timeout}
            line = self.p.stdout.readline()
        except (BrokenPipeError, OSError):
            line = ''
        if not line:
            self.p = None
            return {'verdict': 'skipped', 'why': 'harness died'}
        return json.loads(line)

    def close(self):
        if self.p is not None:
            try:
                self.p.stdin.close()
                self.p.wait(timeout=3)
            except Exception:
                self.p.kill()
