"""Scenario registry + per-property plans (which scenarios, which bounds, per tier)."""
from grammars import ExprPolicy
from scenario import BlockScenario, ConfigSpec

LEAF = ['Ident', 'Lit']
LEAF_EFF = ['Ident', 'Lit', 'Call']
OPS = ['Bin', 'Assign', 'Tpl', 'Call']
MID = ['Ident', 'Lit', 'Bin', 'Call', 'Member', 'Paren', 'Array', 'Tpl']
MID_SMALL = ['Ident', 'Lit', 'Bin', 'Call', 'Paren']
CTX = ['Member', 'Paren', 'Array', 'Unary', 'Cond', 'Seq', 'New', 'Await', 'Update', 'Ident', 'Lit']
TOP_ALL = ['Bin', 'Assign', 'Tpl', 'Call', 'Member', 'Paren', 'Array', 'Unary', 'Cond', 'Seq', 'New', 'Await', 'Update', 'Arrow', 'Ident', 'Lit']

DEFAULT_CFG = [
    dict(src='plusOperator', dst=None, operator=True, awc=False),
    dict(src='tplOperator', dst=None, operator=True, awc=False),
    dict(src='substring', dst='stringSubstring', operator=False, awc=False),
    dict(src='concat', dst=None, operator=False, awc=False),
]

# symbolic table: every field of every entry symbolic inside a small universe
SYM_CFG = [
    dict(src=['plusOperator', 'tplOperator', 'concat'], dst=[None, 'dstA'], operator=None, awc=False),
    dict(src=['tplOperator', 'substring', 'plusOperator'], dst=[None, 'dstB'], operator=None, awc=None),
    dict(src=['substring', 'concat', 'foo'], dst=['dstA', 'dstC', None], operator=None, awc=None),
]


def make_scenario(name, args):
    if name == 'block_expr':
        pol = dict(args['policy'])
        ep = ExprPolicy(**pol)
        cfg = ConfigSpec(args.get('config', DEFAULT_CFG), prefix=args.get('prefix', 'test'), verbosity=args.get('verbosity', 'Information'))
        return BlockScenario(ep, cfg)
    raise KeyError(name)


def expr_profile(levels, **kw):
    d = dict(levels=levels, names=['a', 'b'], props=['substring', 'concat', 'foo', 'call', 'apply', 'prototype'], strs=['s'], max_args=(2, 1, 0))
    d.update(kw)
    return d


PLANS = {}


def plan(prop, tier):
    return PLANS[prop][tier]


# operands-focused exploration: every instrumented operation kind at the root, operand shapes below
OPERANDS_Q = dict(scenario='block_expr', args=dict(policy=expr_profile([OPS, MID_SMALL + ['Array', 'Member'], LEAF], max_args=(2, 1, 0), props=['substring', 'concat', 'foo', 'call'])), label='operations x operand shapes, depth 3 (small alphabet)')
OPERANDS_T = dict(scenario='block_expr', args=dict(policy=expr_profile([OPS, MID, LEAF_EFF], max_args=(2, 1, 0))), label='operations x operand shapes, depth 3 (full alphabet, effectful leaves)')
CONTEXTS_Q = dict(scenario='block_expr', args=dict(policy=expr_profile([CTX, OPS, LEAF], max_args=(1, 1, 0), props=['substring', 'foo'])), label='expression contexts x operations, depth 3')
ALL_D2 = dict(scenario='block_expr', args=dict(policy=expr_profile([TOP_ALL, LEAF_EFF, LEAF], max_args=(2, 0, 0))), label='all expression kinds, depth 2')
SYMCFG_Q = dict(scenario='block_expr', args=dict(policy=expr_profile([OPS, LEAF], max_args=(1, 0, 0), props=['substring', 'concat', 'foo']), config=SYM_CFG), label='symbolic method table (3 entries, all fields symbolic) x operations, depth 2')

for p in ('C02', 'C03', 'C06', 'C12', 'C15'):
    PLANS[p] = {'quick': [ALL_D2, OPERANDS_Q], 'thorough': [ALL_D2, OPERANDS_Q, CONTEXTS_Q, OPERANDS_T]}
PLANS['C05'] = {'quick': [SYMCFG_Q, ALL_D2], 'thorough': [SYMCFG_Q, ALL_D2, OPERANDS_Q]}


# ---------------------------------------------------------------------------------------------
# program-level scenarios

from grammars import StmtPolicy
from scenario import ProgramScenario

ALL_STMTS = ['Expr', 'Decl:Var', 'Return', 'If', 'Block', 'For', 'ForIn', 'ForOf', 'While', 'DoWhile', 'Switch', 'Try', 'Labeled', 'Throw', 'Decl:Fn', 'Decl:Class', 'Empty']
SLOT = ['Bin', 'Ident']          # expression slots: a marked `+` or an identifier
SLOT_LEAF = ['Ident', 'Lit']


def stmt_profile(stmt_levels, levels, **kw):
    d = dict(stmt_levels=stmt_levels, levels=levels, names=['a', 'b'], props=['substring', 'foo'], strs=['s'], max_args=(1, 0, 0), bin_ops=['Add', 'Sub'], assign_ops=['Assign', 'AddAssign'], unary_ops=['Minus', 'Delete'])
    d.update(kw)
    return d


_prev_make = make_scenario


def make_scenario(name, args):
    if name == 'program':
        sp = StmtPolicy(**args['policy'])
        cfg = ConfigSpec(args.get('config', DEFAULT_CFG), prefix=args.get('prefix', 'test'), verbosity=args.get('verbosity', 'Information'))
        return ProgramScenario(sp, cfg, kinds=args.get('kinds', ('Script',)), prologue=args.get('prologue', True))
    return _prev_make(name, args)


# one top-level item (a block or a function/class declaration ...) holding one statement of every kind, expression slots = `a + b` | identifier
PLACEMENT_Q = dict(scenario='program', args=dict(policy=stmt_profile([['Block', 'Decl:Fn'], ALL_STMTS, ['Expr', 'Block', 'Return']], [SLOT, ['Ident']], bin_ops=['Add'], names=['a'], op_budget=1, all_present=True), kinds=('Script', 'Module')),
                   label='program{1 item: block|function}{1 statement of every kind}{nested: expr|block|return}, slots `x + y`|ident, script and module')
PLACEMENT_T = dict(scenario='program', args=dict(policy=stmt_profile([['Block', 'Decl:Fn', 'If', 'Expr', 'Decl:Class'], ALL_STMTS, ['Expr', 'Block', 'Return', 'If', 'Decl:Var']], [['Bin', 'Ident', 'Call', 'Tpl', 'Arrow', 'Assign'], SLOT_LEAF], block_lens=(1, 2)), kinds=('Script', 'Module')),
                   label='program{1 item}{1-2 statements of every kind}{nested}, slots +|call|template|arrow|assign, script and module')

for p in ('C04', 'C07'):
    PLANS[p] = {'quick': [PLACEMENT_Q], 'thorough': [PLACEMENT_Q, PLACEMENT_T]}
for p in ('C02', 'C03', 'C06', 'C12', 'C15'):
    PLANS[p]['quick'] = PLANS[p]['quick'] + [PLACEMENT_Q]
    PLANS[p]['thorough'] = PLANS[p]['thorough'] + [PLACEMENT_Q, PLACEMENT_T]


# directive prologues: up to 2 leading string-literal statements (symbolic text and quote style) in the program and in a function body,
# followed by an instrumented statement
DIRECTIVES_Q = dict(scenario='program', args=dict(policy=stmt_profile([['Decl:Fn', 'Block'], ['Return', 'Expr']], [['Bin', 'Ident'], ['Ident', 'Call'], ['Ident']], bin_ops=['Add'], names=['a'], strs=['use strict', 'use asm'], quotes=["'", '"'], directives=2, items=(1, 2, 3), fn_body_lens=(1, 2, 3), block_lens=(1,), params=(0,), op_budget=2, all_present=True), kinds=('Script', 'Module')),
                    label='program with 0-2 leading directives + {block | function with 0-2 leading directives}, directive text in {use strict,use asm} x quote style symbolic, script and module')
PLANS['C07'] = {'quick': [DIRECTIVES_Q, PLACEMENT_Q], 'thorough': [DIRECTIVES_Q, PLACEMENT_Q, PLACEMENT_T]}

# scope of temporaries: effectful operands (so that temporaries are needed) in parameter defaults, class members, closures
SCOPE_Q = dict(scenario='program', args=dict(policy=stmt_profile([['Block', 'Decl:Fn'], ['Decl:Fn', 'Decl:Class', 'Expr', 'Return', 'Decl:Var'], ['Return', 'Expr']], [['Bin', 'Arrow', 'Ident'], ['Call', 'Ident', 'Bin'], ['Ident', 'Call'], ['Ident']], bin_ops=['Add'], names=['a'], params=(0, 1), op_budget=3, all_present=True), kinds=('Script',)),
               label='blocks/functions containing functions (parameter defaults), classes (methods, field initialisers, static blocks), arrows; operands `x + f()` need temporaries')
for p in ('C06',):
    PLANS[p]['quick'] = PLANS[p]['quick'] + [SCOPE_Q]
    PLANS[p]['thorough'] = PLANS[p]['thorough'] + [SCOPE_Q]
