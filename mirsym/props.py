"""Scenario registry + per-property plans (which scenarios, which bounds, per tier)."""
from grammars import ExprPolicy
from scenario import BlockScenario, ConfigSpec

LEAF = ['Ident', 'Lit']
LEAF_EFF = ['Ident', 'Lit', 'Call']
OPS = ['Bin', 'Assign', 'Tpl', 'Call']
MID = ['Ident', 'Lit', 'Bin', 'Call', 'Member', 'Paren', 'Array', 'Tpl']
MID_SMALL = ['Ident', 'Lit', 'Bin', 'Call', 'Paren']
CTX = ['Member', 'Paren', 'Array', 'Unary', 'Cond', 'Seq', 'New', 'Await', 'Update', 'Ident', 'Lit']
TOP_ALL = ['Bin', 'Assign', 'Tpl', 'Call', 'Member', 'Paren', 'Array', 'Unary', 'Cond', 'Seq', 'New', 'Await', 'Update', 'Arrow', 'Ident', 'Lit']

DEFAULT_CFG = [
    dict(src='plusOperator', dst=None, operator=True, awc=False),
    dict(src='tplOperator', dst=None, operator=True, awc=False),
    dict(src='substring', dst='stringSubstring', operator=False, awc=False),
    dict(src='concat', dst=None, operator=False, awc=False),
]

# symbolic table: every field of every entry symbolic inside a small universe
SYM_CFG = [
    dict(src=['plusOperator', 'tplOperator', 'concat'], dst=[None, 'dstA'], operator=None, awc=False),
    dict(src=['tplOperator', 'substring', 'plusOperator'], dst=[None, 'dstB'], operator=None, awc=None),
    dict(src=['substring', 'concat', 'foo'], dst=['dstA', 'dstC', None], operator=None, awc=None),
]


def apply_pins(ep, args):
    for rx, en, vs in args.get('pins', []):
        ep.pin(rx, en, vs)
    for rx, strs in args.get('string_pins', []):
        ep.pin_strings(rx, strs)
    for rx, lens in args.get('len_pins', []):
        ep.pin_len(rx, lens)
    for rx, alts in args.get('opt_pins', []):
        ep.pin_opt(rx, alts)
    if args.get('import_callee'):
        ep.import_callee = True
    if args.get('super_callee'):
        ep.super_callee = True
    if args.get('concrete_enums'):
        ep.concrete_enums = tuple(args['concrete_enums'])
    if args.get('module_import'):
        ep.module_import = True
    if args.get('str_keys'):
        ep.str_keys = True
    if args.get('obj_full'):
        ep.obj_full = True
    if args.get('pat_full'):
        ep.pat_full = True
    if args.get('private_names'):
        ep.private_names = True
    return ep


def make_scenario(name, args):
    if name == 'block_expr':
        pol = dict(args['policy'])
        ep = apply_pins(ExprPolicy(**pol), args)
        cfg = ConfigSpec(args.get('config', DEFAULT_CFG), prefix=args.get('prefix', 'test'), verbosity=args.get('verbosity', 'Information'))
        return BlockScenario(ep, cfg, wrapper=args.get('wrapper'), v8=args.get('v8'))
    raise KeyError(name)


def expr_profile(levels, **kw):
    d = dict(levels=levels, names=['a', 'b'], props=['substring', 'concat', 'foo', 'call', 'apply', 'prototype'], strs=['s'], max_args=(2, 1, 0))
    d.update(kw)
    return d


PLANS = {}


def plan(prop, tier):
    return PLANS[prop][tier]


# operands-focused exploration: every instrumented operation kind at the root, operand shapes below
OPERANDS_Q = dict(scenario='block_expr', args=dict(policy=expr_profile([OPS, MID_SMALL + ['Array', 'Member', 'Unary'], LEAF], max_args=(2, 1, 0), props=['substring', 'concat', 'foo', 'call'])), label='operations x operand shapes, depth 3 (small alphabet)')
OPERANDS_T = dict(scenario='block_expr', args=dict(policy=expr_profile([OPS, MID + ['Unary', 'Cond'], LEAF], max_args=(2, 1, 0))), label='operations x operand shapes, depth 3 (full alphabet incl. templates, unary, conditional operands)')
CONTEXTS_Q = dict(scenario='block_expr', args=dict(policy=expr_profile([CTX, OPS, LEAF], max_args=(1, 1, 0), props=['substring', 'foo'])), label='expression contexts x operations, depth 3')
ALL_D2 = dict(scenario='block_expr', args=dict(policy=expr_profile([TOP_ALL, LEAF_EFF, LEAF], max_args=(2, 0, 0))), label='all expression kinds, depth 2')
SYMCFG_Q = dict(scenario='block_expr', args=dict(policy=expr_profile([OPS, LEAF], max_args=(1, 1, 0), names=['a', 'substring', 'concat'], props=['substring', 'concat', 'foo']), config=SYM_CFG), label='symbolic method table (3 entries, all fields symbolic) x operations, depth 2')

for p in ('C02', 'C03', 'C06', 'C12', 'C15'):
    PLANS[p] = {'quick': [ALL_D2, OPERANDS_Q], 'thorough': [ALL_D2, OPERANDS_Q, CONTEXTS_Q, OPERANDS_T]}
PLANS['C05'] = {'quick': [SYMCFG_Q, ALL_D2], 'thorough': [SYMCFG_Q, ALL_D2, OPERANDS_Q]}


# ---------------------------------------------------------------------------------------------
# program-level scenarios

from grammars import StmtPolicy
from scenario import ProgramScenario

ALL_STMTS = ['Expr', 'Decl:Var', 'Return', 'If', 'Block', 'For', 'ForIn', 'ForOf', 'While', 'DoWhile', 'Switch', 'Try', 'Labeled', 'Throw', 'Decl:Fn', 'Decl:Class', 'Empty']
SLOT = ['Bin', 'Ident']          # expression slots: a marked `+` or an identifier
SLOT_LEAF = ['Ident', 'Lit']


def stmt_profile(stmt_levels, levels, **kw):
    d = dict(stmt_levels=stmt_levels, levels=levels, names=['a', 'b'], props=['substring', 'foo'], strs=['s'], max_args=(1, 0, 0), bin_ops=['Add', 'Sub'], assign_ops=['Assign', 'AddAssign'], unary_ops=['Minus', 'Delete'])
    d.update(kw)
    return d


_prev_make = make_scenario


def make_scenario(name, args):
    if name == 'program':
        sp = apply_pins(StmtPolicy(**args['policy']), args)
        cfg = ConfigSpec(args.get('config', DEFAULT_CFG), prefix=args.get('prefix', 'test'), verbosity=args.get('verbosity', 'Information'))
        return ProgramScenario(sp, cfg, kinds=args.get('kinds', ('Script',)), prologue=args.get('prologue', True))
    return _prev_make(name, args)


# one top-level item (a block or a function/class declaration ...) holding one statement of every kind, expression slots = `a + b` | identifier
PLACEMENT_Q = dict(scenario='program', args=dict(policy=stmt_profile([['Block', 'Decl:Fn'], ALL_STMTS, ['Expr', 'Block', 'Return']], [SLOT, ['Ident']], bin_ops=['Add'], names=['a'], op_budget=1, all_present=True), kinds=('Script', 'Module')),
                   label='program{1 item: block|function}{1 statement of every kind}{nested: expr|block|return}, slots `x + y`|ident, script and module')
PLACEMENT_T = dict(scenario='program', args=dict(policy=stmt_profile([['Block', 'Decl:Fn', 'Decl:Class'], ALL_STMTS, ['Expr', 'Return', 'Decl:Var']], [['Bin', 'Ident', 'Call', 'Tpl', 'Arrow', 'Assign'], ['Ident'], ['Ident']], bin_ops=['Add'], assign_ops=['AddAssign'], names=['a'], op_budget=1, all_present=True), kinds=('Script', 'Module')),
                   label='program{1 item: block|function|class}{1 statement of every kind}{nested: expr|return|var}, slots +|call|template|arrow|+= (one per program), script and module')

for p in ('C04', 'C07'):
    PLANS[p] = {'quick': [PLACEMENT_Q], 'thorough': [PLACEMENT_Q, PLACEMENT_T]}
for p in ('C02', 'C03', 'C06', 'C12', 'C15'):
    PLANS[p]['quick'] = PLANS[p]['quick'] + [PLACEMENT_Q]
    PLANS[p]['thorough'] = PLANS[p]['thorough'] + [PLACEMENT_Q, PLACEMENT_T]


# directive prologues: up to 2 leading string-literal statements (symbolic text and quote style) in the program and in a function body,
# followed by an instrumented statement
DIRECTIVES_Q = dict(scenario='program', args=dict(policy=stmt_profile([['Decl:Fn', 'Block'], ['Return', 'Expr']], [['Bin', 'Ident'], ['Ident', 'Call'], ['Ident']], bin_ops=['Add'], names=['a'], strs=['use strict', 'use asm', 'worklet'], quotes=["'", '"'], directives=2, items=(1, 2, 3), fn_body_lens=(1, 2, 3), block_lens=(1,), params=(0,), op_budget=2, all_present=True), kinds=('Script', 'Module')),
                    label='program with 0-2 leading directives + {block | function with 0-2 leading directives}, directive text in {use strict, use asm, worklet} x quote style symbolic, script and module')
PLANS['C07'] = {'quick': [DIRECTIVES_Q, PLACEMENT_Q], 'thorough': [DIRECTIVES_Q, PLACEMENT_Q, PLACEMENT_T]}

# scope of temporaries: effectful operands (so that temporaries are needed) in parameter defaults, class members, closures
SCOPE_Q = dict(scenario='program', args=dict(policy=stmt_profile([['Block', 'Decl:Fn'], ['Decl:Fn', 'Decl:Class', 'Expr', 'Return', 'Decl:Var'], ['Return', 'Expr']], [['Bin', 'Arrow', 'Ident'], ['Call', 'Ident', 'Bin'], ['Ident', 'Call'], ['Ident']], bin_ops=['Add'], names=['a'], params=(0, 1), op_budget=3, all_present=True), kinds=('Script',)),
               label='blocks/functions containing functions (parameter defaults), classes (methods, field initialisers, static blocks), arrows; operands `x + f()` need temporaries')
for p in ('C06',):
    PLANS[p]['quick'] = PLANS[p]['quick'] + [SCOPE_Q]
    PLANS[p]['thorough'] = PLANS[p]['thorough'] + [SCOPE_Q]


# operators individually enabled/disabled (symbolic flags) x operations with un-instrumented `+` operands
FLAGS_CFG = [
    dict(src='plusOperator', dst=None, operator=None, awc=False),
    dict(src='tplOperator', dst=None, operator=None, awc=False),
    dict(src='substring', dst='stringSubstring', operator=False, awc=False),
]
FLAGS_Q = dict(scenario='block_expr', args=dict(policy=expr_profile([OPS, ['Ident', 'Lit', 'Bin', 'Tpl'], LEAF], max_args=(1, 0, 0), props=['substring', 'foo'], bin_ops=['Add', 'Sub']), config=FLAGS_CFG),
               label='plus/template operators individually enabled or disabled (symbolic flags) x operations x operands incl. un-instrumented sums, depth 3')
for p in ('C02', 'C03', 'C05', 'C12', 'C15'):
    PLANS[p]['quick'] = PLANS[p]['quick'] + [FLAGS_Q]
    PLANS[p]['thorough'] = PLANS[p]['thorough'] + [FLAGS_Q]


# X.prototype.<m>.<call|apply>(thisArg, args...) : callee chain pinned, method name and call/apply symbolic,
# this-argument and arguments range over literals, identifiers, calls, arrays (nested, with spreads and holes)
PROTO_PINS = [
    (r'^E$', 'Expr', ['Call']),
    (r'^E/Call\.callee/Expr$', 'Expr', ['Member']),
    (r'^E/Call\.callee/Expr/Member\.obj$', 'Expr', ['Member']),
    (r'^E/Call\.callee/Expr/Member\.obj/Member\.obj$', 'Expr', ['Member', 'Ident']),
    (r'^E/Call\.callee/Expr/Member\.obj/Member\.obj/Member\.obj$', 'Expr', ['Ident']),
    (r'^E/Call\.callee/Expr/Member(\.obj/Member)*\.prop$', 'MemberProp', ['Ident']),
]
PROTO_STRS = [
    (r'^E/Call\.callee/Expr/Member\.prop/Ident\.sym$', ['call', 'apply']),
    (r'^E/Call\.callee/Expr/Member\.obj/Member\.prop/Ident\.sym$', ['concat', 'substring', 'foo']),
    (r'^E/Call\.callee/Expr/Member\.obj/Member\.obj/Member\.prop/Ident\.sym$', ['prototype', 'foo']),
]
PROTO_Q = dict(scenario='block_expr', args=dict(policy=expr_profile([['Call'], ['Ident', 'Lit', 'Call', 'Array'], ['Ident', 'Lit', 'Array', 'Call'], ['Ident', 'Lit']], max_args=(2, 2, 0, 0), names=['a', 'String']),
                                                pins=PROTO_PINS, string_pins=PROTO_STRS, config=[dict(src='plusOperator', dst=None, operator=True, awc=False), dict(src='concat', dst='stringConcat', operator=False, awc=False), dict(src='substring', dst=None, operator=False, awc=False)]),
               label='X.prototype.<m>.call|apply(this, arg): method and call/apply symbolic; this/arg in {literal, ident, call, array (nested, spreads, holes)}; 0-2 arguments')
PROTO_T = dict(scenario='block_expr', args=dict(policy=expr_profile([['Call'], ['Ident', 'Lit', 'Call', 'Array', 'Bin', 'Tpl'], ['Ident', 'Lit'], ['Ident']], max_args=(2, 2, 0, 0), names=['a', 'String']),
                                                pins=PROTO_PINS, string_pins=PROTO_STRS, config=[dict(src='plusOperator', dst=None, operator=True, awc=False), dict(src='concat', dst='stringConcat', operator=False, awc=False), dict(src='substring', dst=None, operator=False, awc=False)]),
               label='X.prototype.<m>.call|apply(this, arg): as quick plus `+` operands and nested call arguments')
for p in ('C02', 'C03', 'C15', 'C12', 'C06'):
    PLANS[p]['quick'] = PLANS[p]['quick'] + [PROTO_Q]
    PLANS[p]['thorough'] = PLANS[p]['thorough'] + [PROTO_T]

# argument arrays with three elements, so that a hole can sit between two elements (`.apply('s', [x, , y])`)
PROTO_HOLES_Q = dict(scenario='block_expr', args=dict(policy=expr_profile([['Call'], ['Lit', 'Ident', 'Array'], ['Ident', 'Lit'], ['Ident']], max_args=(2, 0, 0, 0), names=['a', 'String']),
                                                      pins=PROTO_PINS + [(r'^E/Call\.args\[1\]\.expr$', 'Expr', ['Array']), (r'^E/Call\.args\[0\]\.expr$', 'Expr', ['Lit', 'Ident'])], string_pins=PROTO_STRS,
                                                      len_pins=[(r'^E/Call\.args$', [2]), (r'^E/Call\.args\[1\]\.expr/Array\.elems$', [2, 3])], opt_pins=[(r'^E/Call\.args\[[01]\]\.spread$', [0])],
                                                      config=[dict(src='plusOperator', dst=None, operator=True, awc=False), dict(src='concat', dst='stringConcat', operator=False, awc=False), dict(src='substring', dst=None, operator=False, awc=False)]),
                     label='X.prototype.<m>.call|apply(this, [e0, e1(, e2)]): this in {literal, identifier}, elements in {literal, identifier, hole, spread}')
for p in ('C02', 'C03', 'C13'):
    if p in PLANS:
        PLANS[p]['quick'] = PLANS[p]['quick'] + [PROTO_HOLES_Q]
        PLANS[p]['thorough'] = PLANS[p]['thorough'] + [PROTO_HOLES_Q]

# three arguments: `.apply(this, [..], extra)` / `.call(this, x, y)` -- whatever follows the argument array is still evaluated
PROTO3_Q = dict(scenario='block_expr', args=dict(policy=expr_profile([['Call'], ['Ident', 'Call', 'Array'], ['Ident', 'Call'], ['Ident']], max_args=(3, 1, 0, 0), names=['a', 'String'], spread=True),
                                                 pins=PROTO_PINS + [(r'^E/Call\.args\[1\]\.expr$', 'Expr', ['Array', 'Ident']), (r'^E/Call\.args\[0\]\.expr$', 'Expr', ['Ident'])], string_pins=PROTO_STRS, len_pins=[(r'^E/Call\.args$', [3])],
                                                 opt_pins=[(r'^E/Call\.args\[[01]\]\.spread$', [0])],
                                                 config=[dict(src='plusOperator', dst=None, operator=True, awc=False), dict(src='concat', dst='stringConcat', operator=False, awc=False), dict(src='substring', dst=None, operator=False, awc=False)]),
                label='X.prototype.<m>.call|apply(this, second, third): exactly three arguments (third possibly a spread / a call with effects)')
for p in ('C02', 'C03'):
    PLANS[p]['quick'] = PLANS[p]['quick'] + [PROTO3_Q]
    PLANS[p]['thorough'] = PLANS[p]['thorough'] + [PROTO3_Q]


# dynamic import / call arguments
CALLEE_Q = dict(scenario='block_expr', args=dict(policy=expr_profile([['Call', 'New'], ['Bin', 'Tpl', 'Ident', 'Call'], LEAF], max_args=(2, 2, 0), props=['substring', 'foo']), import_callee=True),
                label='calls with callee in {expression, import} and `new`, arguments holding instrumentable operations')
PLANS['C04']['quick'] = PLANS['C04']['quick'] + [CALLEE_Q, ALL_D2]
PLANS['C04']['thorough'] = PLANS['C04']['thorough'] + [CALLEE_Q, ALL_D2, OPERANDS_Q]

# private names in member chains (inside a class method, so that `this.#x` parses)
PRIVATE_Q = dict(scenario='block_expr', args=dict(policy=expr_profile([['Call', 'Bin'], ['Member', 'Ident', 'Call'], ['Member', 'This', 'Ident'], ['This', 'Ident']], max_args=(1, 0, 0, 0), names=['a'], props=['substring', 'call', 'foo'], bin_ops=['Add']),
                                                  private_names=True, wrapper=('class K { #x; m() { ', ' } }')),
                 label='calls / sums over member chains whose links may be private names (`this.#x.substring(a)`, `this.#x.call(a)`, `a.#x.foo.call(a)`), printed inside a class method')
for p in ('C02', 'C04', 'C12'):
    PLANS[p]['thorough'] = PLANS[p]['thorough'] + [PRIVATE_Q]

# many temporaries in one statement: two-digit suffixes (`__datadog_test_10`, ..)
MANY_TEMPS_Q = dict(scenario='block_expr', args=dict(policy=expr_profile([['Call'], ['Call'], ['Ident']], max_args=(10, 0, 0), names=['a'], props=['substring'], spread=False),
                                                     pins=[(r'^E/Call\.callee/Expr$', 'Expr', ['Member']), (r'^E/Call\.callee/Expr/Member\.obj$', 'Expr', ['Ident']), (r'^E/Call\.callee/Expr/Member\.prop$', 'MemberProp', ['Ident']),
                                                           (r'^E/Call\.args\[\d+\]\.expr$', 'Expr', ['Call']), (r'^E/Call\.args\[\d+\]\.expr/Call\.callee/Expr$', 'Expr', ['Ident'])],
                                                     len_pins=[(r'^E/Call\.args$', [9, 10])],
                                                     config=[dict(src='plusOperator', dst=None, operator=True, awc=False), dict(src='substring', dst='stringSubstring', operator=False, awc=False)]),
                    label='a method call with 9-10 effectful arguments: 11-12 temporaries in one statement (two-digit suffixes)')
for p in ('C06', 'C02'):
    PLANS[p]['quick'] = PLANS[p]['quick'] + [MANY_TEMPS_Q]
    PLANS[p]['thorough'] = PLANS[p]['thorough'] + [MANY_TEMPS_Q]

# `this` and super() in a derived-class constructor: reading `this` before super() returns throws, so the two do not commute
SUPER_Q = dict(scenario='block_expr', args=dict(policy=expr_profile([['Bin', 'Call', 'Tpl'], ['This', 'Call', 'Ident', 'Member'], ['This', 'Ident'], ['Ident']], max_args=(2, 0, 0, 0), names=['a'], props=['substring'], bin_ops=['Add'], spread=True, op_budget=4),
                                                super_callee=True, wrapper=('class K extends a { constructor() { ', ' } }'),
                                                config=[dict(src='plusOperator', dst=None, operator=True, awc=False), dict(src='tplOperator', dst=None, operator=True, awc=False), dict(src='substring', dst='stringSubstring', operator=False, awc=False)]),
               label='operations over `this`, super(..) calls and identifiers (`this + super()`, `a.substring(this, super())`, `${this}${super()}`), printed inside a derived-class constructor')

# reserved-prefix collision: identifiers may be named like an injected temporary
COLLISION_Q = dict(scenario='program', args=dict(policy=stmt_profile([['Block', 'Decl:Fn'], ['Expr', 'Decl:Var', 'Decl:Fn'], ['Return']], [['Bin', 'Ident', 'Call'], ['Ident', 'Call'], ['Ident']], bin_ops=['Add'], names=['a', '__datadog_test_0'], params=(0, 1), block_lens=(1, 2), op_budget=2, all_present=True), kinds=('Script',)),
                   label='blocks/functions whose identifiers (bindings, references, function names, parameters, call arguments) may be named __datadog_test_0, next to operations that need temporaries')
PLANS['C06']['quick'] = PLANS['C06']['quick'] + [COLLISION_Q]
PLANS['C06']['thorough'] = PLANS['C06']['thorough'] + [COLLISION_Q]

# C16: hash-iteration-order independence of the block visitor (two runs, opposite orders)
from scenario import DeterminismScenario

_prev_make_det = make_scenario


def make_scenario(name, args):
    if name == 'determinism':
        sp = apply_pins(StmtPolicy(**args['policy']), args)
        cfg = ConfigSpec(args.get('config', DEFAULT_CFG), prefix=args.get('prefix', 'test'), verbosity=args.get('verbosity', 'Debug'))
        return DeterminismScenario(sp, cfg, kinds=args.get('kinds', ('Script',)), prologue=False)
    return _prev_make_det(name, args)


DETERMINISM_Q = dict(scenario='determinism', args=dict(policy=stmt_profile([['Block'], ['Expr'], ['Expr']], [['OptChain', 'Bin', 'Ident'], ['OptChain', 'Ident', 'Member'], ['Ident']], bin_ops=['Add'], names=['a', '__datadog_test_7'], props=['substring'], params=(0,), block_lens=(1, 2), max_args=(0, 0, 0), op_budget=3, all_present=True),
                                                       config=[dict(src='plusOperator', dst=None, operator=True, awc=False), dict(src='tplOperator', dst=None, operator=True, awc=False), dict(src='substring', dst='stringSubstring', operator=False, awc=False)]),
                     label='two runs of the block visitor on the same program with opposite hash-container iteration orders: blocks of 1-2 expression statements with sums and optional chains over `substring`; identifiers may carry the reserved prefix; debug telemetry')

# object literals with computed keys, spreads, shorthands and methods (bodies hold operations)
OBJECTS_Q = dict(scenario='program', args=dict(policy=stmt_profile([['Block'], ['Decl:Var', 'Expr'], ['Return', 'Expr']], [['Object', 'Paren'], ['Object', 'Bin', 'Ident'], ['Bin', 'Ident', 'Call'], ['Ident']], bin_ops=['Add'], names=['a'], props=['substring'], max_args=(0, 0, 0, 0), params=(0,), op_budget=3, all_present=True, spread=False),
                                       obj_full=True, kinds=('Script',)),
                 label='object literals (as initialiser, argument, parenthesised statement) with identifier / computed keys, spread and shorthand properties and methods whose bodies hold operations')
for p in ('C02', 'C03', 'C04', 'C06', 'C12', 'C15'):
    PLANS[p]['thorough'] = PLANS[p]['thorough'] + [OBJECTS_Q]

# destructuring declarations and parameters with defaults that hold operations
PATTERNS_Q = dict(scenario='program', args=dict(policy=stmt_profile([['Block', 'Decl:Fn'], ['Decl:Var', 'Return'], ['Return']], [['Bin', 'Ident', 'Call', 'Arrow'], ['Ident', 'Call'], ['Ident']], bin_ops=['Add'], names=['a'], props=['substring'], max_args=(0, 0, 0), params=(0, 1), op_budget=2, all_present=True, spread=False),
                                        pat_full=True, kinds=('Script',)),
                  label='blocks / functions with destructuring declarations (`let [a, b = x + y] = z`, `const {k: v = f() + g, w = x + y} = z`) and destructuring parameters whose defaults hold operations')
for p in ('C02', 'C04', 'C06', 'C12', 'C15'):
    PLANS[p]['thorough'] = PLANS[p]['thorough'] + [PATTERNS_Q]

# modules that start with an import declaration
MODULE_Q = dict(scenario='program', args=dict(policy=stmt_profile([['Block', 'Decl:Fn', 'Expr'], ['Return', 'Expr']], [['Bin', 'Ident', 'Lit'], ['Ident']], bin_ops=['Add'], names=['a'], strs=['use strict', 'x'], quotes=["'"], directives=1, items=(1, 2), params=(0,), op_budget=1, all_present=True), kinds=('Module', 'Script'), module_import=True),
                label='modules whose first item is an import declaration or a directive, followed by an instrumented block/function; scripts likewise')
for p in ('C07', 'C12', 'C02'):
    PLANS[p]['quick'] = PLANS[p]['quick'] + [MODULE_Q]
    PLANS[p]['thorough'] = PLANS[p]['thorough'] + [MODULE_Q]


# literal collection
from scenario import LiteralScenario

_prev_make2 = make_scenario


def make_scenario(name, args):
    if name == 'literals':
        sp = apply_pins(StmtPolicy(**args['policy']), args)
        sp.free_strings = args.get('free_strings')
        cfg = ConfigSpec(args.get('config', DEFAULT_CFG), prefix='test', verbosity='Information', literals=True)
        return LiteralScenario(sp, cfg, kinds=args.get('kinds', ('Script',)), enabled=args.get('enabled', (True,)))
    return _prev_make2(name, args)


LIT_EXPRS = ['Lit', 'Bin', 'Call', 'New', 'Object', 'Ident']
LITERALS_Q = dict(scenario='literals', args=dict(policy=stmt_profile([['Decl:Var', 'Expr', 'Block', 'Decl:Fn'], ['Decl:Var', 'Expr', 'Return'], ['Expr']], [LIT_EXPRS, ['Lit', 'Ident', 'Call'], ['Lit', 'Ident']], bin_ops=['Add'], names=['require', 'RegExp', 'foo'], props=['k'], max_args=(1, 1, 1, 0), params=(0,), op_budget=2, all_present=True, spread=False),
                                                 free_strings=(0, 300), enabled=(True, False)),
                  label='var initialisers / statements / object values / call and new arguments holding string literals of symbolic length 0..300 (callee names in {require, RegExp, foo}), top level, block and function body; collection on and off')
# strings that are NOT string-literal expressions: quoted object keys, import sources
LITERAL_KEYS_Q = dict(scenario='literals', args=dict(policy=stmt_profile([['Decl:Var', 'Expr'], ['Expr']], [['Object', 'Lit', 'Ident'], ['Lit', 'Ident', 'Object'], ['Lit', 'Ident']], bin_ops=['Add'], names=['foo'], props=['k'], max_args=(0, 0, 0), params=(0,), items=(1, 2), op_budget=2, all_present=True, spread=False),
                                                     free_strings=(0, 300), enabled=(True,), kinds=('Module', 'Script'), module_import=True, str_keys=True),
                      label='object literals with quoted (string) keys and modules starting with an import declaration: strings of symbolic length 0..300 in non-expression positions next to string-literal values')
# string literals as default values inside destructuring patterns of declarations
LITERAL_PATTERNS_Q = dict(scenario='literals', args=dict(policy=stmt_profile([['Decl:Var', 'Block'], ['Decl:Var', 'Expr'], ['Expr']], [['Lit', 'Ident'], ['Lit', 'Ident']], bin_ops=['Add'], names=['foo'], props=['k'], max_args=(0, 0), params=(0,), items=(1,), op_budget=1, all_present=True, spread=False),
                                                         free_strings=(0, 300), enabled=(True,), kinds=('Script',), pat_full=True),
                          label='declarations with array / object patterns whose defaults are string literals of symbolic length (`const { k = "…" } = x`, `let [a = "…"] = y`)')
PLANS['C14'] = {'quick': [LITERALS_Q, LITERAL_KEYS_Q, LITERAL_PATTERNS_Q], 'thorough': [LITERALS_Q, LITERAL_KEYS_Q, LITERAL_PATTERNS_Q]}


# source-map discovery
from scenario import ExtractScenario

_prev_make3 = make_scenario


def make_scenario(name, args):
    if name == 'extract':
        return ExtractScenario(args.get('max_buckets', 2), args.get('per_bucket', (1, 2)), args.get('texts'))
    return _prev_make3(name, args)


EXTRACT_T = dict(scenario='extract', args=dict(max_buckets=2), label='extract_source_map (thorough): 1-2 comments per bucket, 5 texts')
EXTRACT_Q = dict(scenario='extract', args=dict(max_buckets=2, per_bucket=(1,)), label='extract_source_map: file name in {"", a.js, /d/a.js, /, d/} x 0-2 trailing-comment buckets x 1-2 comments (5 texts) x decode_data_url/open/decode each returning any of their results; two DashMap iteration orders')
PLANS['C13'] = {'quick': [EXTRACT_Q, ALL_D2, PROTO_Q, PLACEMENT_Q], 'thorough': [EXTRACT_T, ALL_D2, PROTO_T, PLACEMENT_Q, OPERANDS_Q]}
PLANS['C10'] = {'quick': [EXTRACT_Q], 'thorough': [EXTRACT_T]}
PLANS['C16'] = {'quick': [EXTRACT_Q, DETERMINISM_Q], 'thorough': [EXTRACT_T, DETERMINISM_Q]}


# C01: behavioural equivalence.  Short-circuit contexts with concrete operators; effectful leaves everywhere.
SHORTCIRCUIT_Q = dict(scenario='block_expr', args=dict(policy=expr_profile([['Bin', 'Cond', 'Assign'], ['Bin', 'Call', 'Ident'], ['Ident', 'Call'], ['Ident']], max_args=(1, 1, 0, 0), bin_ops=['LogicalOr', 'NullishCoalescing', 'Add'], assign_ops=['AddAssign', 'OrAssign'], props=['substring', 'foo'], names=['a'], op_budget=4), concrete_enums=('BinaryOp', 'AssignOp')),
                      label='short-circuit contexts (||, ??, ?:, ||=) with concrete operators around instrumented operations with effectful operands, depth 3, <= 4 non-leaf nodes')
PLANS['C01'] = {'quick': [ALL_D2, OPERANDS_Q, SHORTCIRCUIT_Q, PROTO_Q], 'thorough': [ALL_D2, OPERANDS_Q, CONTEXTS_Q, SHORTCIRCUIT_Q, PROTO_T, OPERANDS_T]}


# optional chains
OPTCHAIN_Q = dict(scenario='block_expr', args=dict(policy=expr_profile([['OptChain'], ['OptChain', 'Ident', 'Call', 'Member'], ['OptChain', 'Ident', 'Member'], ['Ident', 'Member'], ['Ident']], max_args=(0, 1, 0, 0, 0), props=['substring', 'foo', 'prototype'], names=['a'], op_budget=4),
                                                   config=[dict(src='plusOperator', dst=None, operator=True, awc=False), dict(src='substring', dst='stringSubstring', operator=False, awc=False)]),
                  label='optional chains of up to 3 links (member / call links, `optional` flags symbolic), method names in {substring (configured), foo}, <= 4 non-leaf nodes')
for p in ('C01', 'C02', 'C03', 'C06', 'C12', 'C13', 'C15'):
    PLANS[p]['quick'] = PLANS[p]['quick'] + [OPTCHAIN_Q]
    PLANS[p]['thorough'] = PLANS[p]['thorough'] + [OPTCHAIN_Q]

# optional chains as operand of delete / typeof / void (the reference, not the value, is what `delete` consumes)
OPTCHAIN_UNARY_Q = dict(scenario='block_expr', args=dict(policy=expr_profile([['Unary'], ['OptChain'], ['OptChain', 'Ident'], ['OptChain', 'Ident', 'Member'], ['Ident']], max_args=(0, 0, 0, 0, 0), props=['substring', 'foo'], names=['a'], unary_ops=['Delete', 'TypeOf'], op_budget=5),
                                                         config=[dict(src='plusOperator', dst=None, operator=True, awc=False), dict(src='substring', dst='stringSubstring', operator=False, awc=False)], concrete_enums=('UnaryOp',)),
                        label='delete / typeof applied to optional chains of up to 3 links with instrumented method calls in the spine (`delete a?.b.substring().c`)')
for p in ('C01', 'C02'):
    PLANS[p]['quick'] = PLANS[p]['quick'] + [OPTCHAIN_UNARY_Q]
    PLANS[p]['thorough'] = PLANS[p]['thorough'] + [OPTCHAIN_UNARY_Q]


# transform_js glue (C12)
from scenario import TransformScenario

_prev_make4 = make_scenario


def make_scenario(name, args):
    if name == 'transform':
        sp = apply_pins(StmtPolicy(**args['policy']), args)
        cfg = ConfigSpec(args.get('config', DEFAULT_CFG), prefix='test', verbosity=args.get('verbosity', 'Information'), literals=args.get('literals', False), comments=args.get('comments', False))
        return TransformScenario(sp, cfg, kinds=args.get('kinds', ('Script',)), prologue=True)
    return _prev_make4(name, args)


TRANSFORM_Q = dict(scenario='transform', args=dict(policy=stmt_profile([['Block', 'Expr', 'Decl:Fn'], ['Expr', 'Return', 'Decl:Var']], [['Bin', 'Ident', 'Arrow', 'Lit'], ['Ident', 'Lit']], names=['a', '__datadog_test_0'], params=(0,), op_budget=2, all_present=True), kinds=('Script', 'Module'), verbosity=['Off', 'Information', 'Debug']),
                   label='transform_js on programs with/without instrumentable operations, literal-only sums, expression-bodied arrows and reserved-prefix identifiers (cancelled), every verbosity; Compiler::print uninterpreted')
PLANS['C12']['quick'] = PLANS['C12']['quick'] + [TRANSFORM_Q]
PLANS['C12']['thorough'] = PLANS['C12']['thorough'] + [TRANSFORM_Q]
PLANS['C13']['quick'] = PLANS['C13']['quick'] + [TRANSFORM_Q]
PLANS['C13']['thorough'] = PLANS['C13']['thorough'] + [TRANSFORM_Q]


# rewrite_js: the public entry point around transform_js
from scenario import RewriteScenario

_prev_make_rw = make_scenario


def make_scenario(name, args):
    if name == 'rewrite':
        sp = apply_pins(StmtPolicy(**args['policy']), args)
        cfg = ConfigSpec(args.get('config', DEFAULT_CFG), prefix='test', verbosity=args.get('verbosity', 'Information'), literals=args.get('literals', False), comments=args.get('comments', False))
        return RewriteScenario(sp, cfg, kinds=args.get('kinds', ('Script',)), prologue=True)
    return _prev_make_rw(name, args)


REWRITE_Q = dict(scenario='rewrite', args=dict(policy=stmt_profile([['Block', 'Expr'], ['Expr', 'Return']], [['Bin', 'Ident', 'Lit'], ['Ident', 'Lit']], names=['a', '__datadog_test_0'], params=(0,), op_budget=1, all_present=True), kinds=('Script', 'Module'), verbosity=['Off', 'Information']),
                 label='rewrite_js (entry point) with swc stubbed: file names {dir/test.js, test.js, <anonymous>} x parser Ok|Err x small programs (modified / not modified / cancelled); the FileName the input is registered under, error propagation, everything TRANSFORM_Q checks')

# chain_source_maps
from scenario import ChainScenario

_prev_make5 = make_scenario


def make_scenario(name, args):
    if name == 'chain':
        return ChainScenario(args.get('max_tokens', 2))
    return _prev_make5(name, args)


CHAIN_Q = dict(scenario='chain', args=dict(max_tokens=2), label='chain_source_maps: chain flag x original map present/absent x rewrite map parse ok/error x 1-2 tokens (symbolic 32-bit positions) x lookup hit/miss x original token with/without source (2 names) and name (2 names) x writer ok/error')
CHAIN_T = dict(scenario='chain', args=dict(max_tokens=3), label='chain_source_maps: as quick with up to 3 tokens')
PLANS['C10'] = {'quick': [EXTRACT_Q, CHAIN_Q], 'thorough': [EXTRACT_T, CHAIN_T]}
PLANS['C13']['quick'] = PLANS['C13']['quick'] + [CHAIN_Q, LITERALS_Q]
PLANS['C13']['thorough'] = PLANS['C13']['thorough'] + [CHAIN_T, LITERALS_Q]


PLANS['C09'] = {'quick': [ALL_D2, OPERANDS_Q, PROTO_Q, PLACEMENT_Q, TRANSFORM_Q], 'thorough': [ALL_D2, OPERANDS_Q, CONTEXTS_Q, PROTO_T, PLACEMENT_Q, PLACEMENT_T, TRANSFORM_Q]}


# print_js
from scenario import PrintScenario

_prev_make6 = make_scenario


def make_scenario(name, args):
    if name == 'print':
        return PrintScenario(args.get('max_len', 24))
    return _prev_make6(name, args)


PRINT_Q = dict(scenario='print', args=dict(max_len=24), label='print_js: print_comments x superseded comment present/absent x map empty/non-empty; code = pre ++ "//" ++ comment ++ post with |pre| <= 24, |post| <= 4, comment = "# sourceMappingURL=" ++ tail (|tail| <= 3, no line break), |map| <= 6; str::replace = str.replace_all, base64 uninterpreted; decided by cvc5')
PLANS['C10'] = {'quick': [EXTRACT_Q, CHAIN_Q, PRINT_Q], 'thorough': [EXTRACT_T, CHAIN_T, PRINT_Q]}
PLANS['C13']['quick'] = PLANS['C13']['quick'] + [PRINT_Q]
PLANS['C13']['thorough'] = PLANS['C13']['thorough'] + [PRINT_Q]


# option defaults / prologue text
from scenario import ToConfigScenario

_prev_make7 = make_scenario


def make_scenario(name, args):
    if name == 'to_config':
        return ToConfigScenario()
    return _prev_make7(name, args)


TOCONFIG_Q = dict(scenario='to_config', args={}, label='RewriterConfig::to_config: every Option<bool> in {None, Some(true), Some(false)} x prefix {None, given} x verbosity {None, OFF, off, Debug, MANDATORY, INFORMATION, bogus, ""} (methods absent); and methods {None, [], [2 methods: first with dst/operator/allowedWithoutCallee each None or given, second with dst None or given]} (other options absent); fastrand as a symbolic index, the parser of the prologue stubbed (its input text is checked)')
PLANS['C05']['quick'] = PLANS['C05']['quick'] + [TOCONFIG_Q]
PLANS['C05']['thorough'] = PLANS['C05']['thorough'] + [TOCONFIG_Q]
# the prologue statements produced here are emitted into every modified file: their positions matter for C09 (source map) and C13
for p in ('C09', 'C13'):
    PLANS[p]['quick'] = PLANS[p]['quick'] + [TOCONFIG_Q]
    PLANS[p]['thorough'] = PLANS[p]['thorough'] + [TOCONFIG_Q]


# telemetry under every verbosity (count, debug breakdown by tag)
TELEMETRY_Q = dict(scenario='block_expr', args=dict(policy=expr_profile([OPS + ['Seq'], ['Ident', 'Bin', 'Call', 'Assign', 'Tpl'], ['Ident']], max_args=(1, 1, 0), names=['a'], props=['substring'], bin_ops=['Add'], assign_ops=['AddAssign'], op_budget=3), verbosity=['Off', 'Debug']),
                   label='operations nested in operations / sequences under verbosity Off and Debug (symbolic): count and per-tag breakdown (+, +=, Tpl, method source name)')
PLANS['C15']['quick'] = PLANS['C15']['quick'] + [TELEMETRY_Q]
PLANS['C15']['thorough'] = PLANS['C15']['thorough'] + [TELEMETRY_Q]

PLANS['C04']['quick'] = PLANS['C04']['quick'] + [PROTO_Q]
PLANS['C04']['thorough'] = PLANS['C04']['thorough'] + [PROTO_T]

PLANS['C04']['quick'] = PLANS['C04']['quick'] + [OPTCHAIN_Q]
PLANS['C04']['thorough'] = PLANS['C04']['thorough'] + [OPTCHAIN_Q]
PLANS['C04']['quick'] = PLANS['C04']['quick'] + [FLAGS_Q, SYMCFG_Q]
PLANS['C04']['thorough'] = PLANS['C04']['thorough'] + [FLAGS_Q, SYMCFG_Q]


# un-instrumented sums (plus operator possibly off) whose operands are instrumented calls, as operands of method calls / templates
NESTED_FLAGS_Q = dict(scenario='block_expr', args=dict(policy=expr_profile([['Call', 'Tpl'], ['Bin', 'Ident', 'Member'], ['Lit', 'Call', 'Ident'], ['Ident', 'Member'], ['Ident']], max_args=(1, 1, 0, 0, 0), op_budget=5, names=['a'], props=['substring', 'trim'], strs=['s'], bin_ops=['Add', 'Sub'], spread=False),
                                                      config=[dict(src='plusOperator', dst=None, operator=None, awc=False), dict(src='tplOperator', dst=None, operator=True, awc=False), dict(src='substring', dst='stringSubstring', operator=False, awc=False), dict(src='trim', dst='stringTrim', operator=False, awc=False)]),
                      label='method calls / templates whose argument is a (possibly un-instrumented) sum of literals and instrumented method calls; plus operator flag symbolic')
for p in ('C01', 'C02', 'C03', 'C15'):
    PLANS[p]['quick'] = PLANS[p]['quick'] + [NESTED_FLAGS_Q]
    PLANS[p]['thorough'] = PLANS[p]['thorough'] + [NESTED_FLAGS_Q]


# templates that hold instrumented operations, used as operands / arguments of instrumented operations; template operator on or off
TPL_OPERAND_Q = dict(scenario='block_expr', args=dict(policy=expr_profile([['Bin', 'Call', 'Assign'], ['Tpl', 'Ident'], ['Bin', 'Call', 'Ident'], ['Ident'], ['Ident']], max_args=(1, 0, 0, 0, 0), op_budget=4, names=['a'], props=['substring'], strs=['s'], bin_ops=['Add'], assign_ops=['AddAssign'], spread=False),
                                                      config=[dict(src='plusOperator', dst=None, operator=True, awc=False), dict(src='tplOperator', dst=None, operator=None, awc=False), dict(src='substring', dst='stringSubstring', operator=False, awc=False)]),
                     label='sums / += / method calls whose operands are templates holding instrumented operations (`${a + a}!` + a); template operator flag symbolic')
for p in ('C02', 'C03', 'C15', 'C01'):
    PLANS[p]['quick'] = PLANS[p]['quick'] + [TPL_OPERAND_Q]
    PLANS[p]['thorough'] = PLANS[p]['thorough'] + [TPL_OPERAND_Q]


# arrows / closures under every operator configuration (operators individually on or off, one method configured)
ARROW_FLAGS_Q = dict(scenario='block_expr', args=dict(policy=expr_profile([['Arrow', 'Call', 'Bin'], ['Arrow', 'Call', 'Bin', 'Ident', 'Tpl'], ['Ident', 'Call', 'Member'], ['Ident']], max_args=(1, 1, 0, 0), names=['a'], props=['substring'], bin_ops=['Add'], spread=False, op_budget=3),
                                                     config=[dict(src='plusOperator', dst=None, operator=None, awc=False), dict(src='tplOperator', dst=None, operator=None, awc=False), dict(src='substring', dst='stringSubstring', operator=False, awc=False)]),
                     label='expression- and block-bodied arrows (nested, as arguments and operands) whose bodies hold operations needing temporaries; plus/template operator flags symbolic, one configured method')
for p in ('C06', 'C02', 'C01', 'C12'):
    PLANS[p]['quick'] = PLANS[p]['quick'] + [ARROW_FLAGS_Q]
    PLANS[p]['thorough'] = PLANS[p]['thorough'] + [ARROW_FLAGS_Q]

# an arrow as a LATER operand/argument of an operation whose earlier operand needed temporaries (numbering across siblings)
ARROW_SIBLING_Q = dict(scenario='block_expr', args=dict(policy=expr_profile([['Call', 'Bin', 'Tpl'], ['Bin', 'Call', 'Ident', 'Arrow', 'Member'], ['Ident', 'Call', 'Bin'], ['Ident']], max_args=(2, 2, 0, 0), names=['a'], props=['substring'], bin_ops=['Add'], spread=False, op_budget=4),
                                                        pins=[(r'\.args\[1\]\.expr$', 'Expr', ['Arrow'])],
                                                        config=[dict(src='plusOperator', dst=None, operator=True, awc=False), dict(src='tplOperator', dst=None, operator=True, awc=False), dict(src='substring', dst='stringSubstring', operator=False, awc=False)]),
                       label='operations whose first operand/argument needs temporaries (`b + c()`) and whose second is an expression-bodied arrow or a call taking one')
for p in ('C06', 'C01', 'C02'):
    PLANS[p]['quick'] = PLANS[p]['quick'] + [ARROW_SIBLING_Q]
    PLANS[p]['thorough'] = PLANS[p]['thorough'] + [ARROW_SIBLING_Q]


# curried arrows: an expression-bodied arrow that is directly the body of another arrow (`a => a => a + a`); the inner body only
# becomes a block (and so gets a traversal of its own) if every level of the chain is normalised
CURRIED_Q = dict(scenario='block_expr', args=dict(policy=expr_profile([['Arrow'], ['Arrow'], ['Arrow', 'Bin', 'Call', 'Tpl'], ['Ident', 'Member', 'Bin'], ['Ident']], max_args=(0, 0, 1, 0, 0), names=['a'], props=['substring'], bin_ops=['Add'], spread=False, op_budget=4),
                                                 config=[dict(src='plusOperator', dst=None, operator=True, awc=False), dict(src='tplOperator', dst=None, operator=True, awc=False), dict(src='substring', dst='stringSubstring', operator=False, awc=False)]),
                 label='curried arrows two and three deep (`a => a => a + a`, `a => a => a => a.substring(a)`), expression- and block-bodied at every level, the innermost body an operation')
for p in ('C04', 'C02', 'C12'):
    PLANS[p]['quick'] = PLANS[p]['quick'] + [CURRIED_Q]
    PLANS[p]['thorough'] = PLANS[p]['thorough'] + [CURRIED_Q]


# two instrumented statements of one block that both need temporaries: the names are reused from statement to statement
# (`__datadog_test_0` in both), the nodes are not — each use must carry the dummy span or a span of its own operation
TEMP_SPANS_Q = dict(scenario='program', args=dict(policy=stmt_profile([['Block', 'Decl:Fn'], ['Expr', 'Decl:Var', 'Return']], [['Bin', 'Call'], ['Call', 'Ident'], ['Ident']], bin_ops=['Add'], names=['a'], props=['substring'], max_args=(1, 0, 0), params=(0,), block_lens=(2, 3), fn_body_lens=(2,), op_budget=6, all_present=True), kinds=('Script',)),
                    label='blocks / function bodies of 2-3 statements, each an operation with effectful operands (`a() + a(); const a = a().substring(a());`): the same temporary names recur in every statement')
for p in ('C09', 'C06', 'C02'):
    PLANS[p]['quick'] = PLANS[p]['quick'] + [TEMP_SPANS_Q]
    PLANS[p]['thorough'] = PLANS[p]['thorough'] + [TEMP_SPANS_Q]


# optional call whose method name equals an *operator* entry of the configuration (`a?.plusOperator(a)`): operator entries are
# not methods — the chain must stay untouched (no lowering, status not modified)
OPTCHAIN_OPNAME_Q = dict(scenario='block_expr', args=dict(policy=expr_profile([['OptChain'], ['OptChain', 'Ident', 'Call', 'Member'], ['Ident', 'Member'], ['Ident']], max_args=(0, 1, 0, 0), props=['plusOperator', 'tplOperator', 'substring'], names=['a'], op_budget=3),
                                                          config=[dict(src='plusOperator', dst=None, operator=True, awc=False), dict(src='tplOperator', dst=None, operator=True, awc=False), dict(src='substring', dst='stringSubstring', operator=False, awc=False)]),
                         label='optional chains of up to 2 links whose property names are in {plusOperator, tplOperator (operator entries), substring (configured method)}')
for p in ('C12', 'C05', 'C15'):
    PLANS[p]['quick'] = PLANS[p]['quick'] + [OPTCHAIN_OPNAME_Q]
    PLANS[p]['thorough'] = PLANS[p]['thorough'] + [OPTCHAIN_OPNAME_Q]


PLANS['C13']['quick'] = PLANS['C13']['quick'] + [PRIVATE_Q]
PLANS['C13']['thorough'] = PLANS['C13']['thorough'] + [PRIVATE_Q]

PLANS['C01']['quick'] = PLANS['C01']['quick'] + [PROTO3_Q]
PLANS['C01']['thorough'] = PLANS['C01']['thorough'] + [PROTO3_Q]

for p in ('C09', 'C12', 'C13'):
    PLANS[p]['quick'] = PLANS[p]['quick'] + [REWRITE_Q]
    PLANS[p]['thorough'] = PLANS[p]['thorough'] + [REWRITE_Q]

PLANS['C01']['quick'] = PLANS['C01']['quick'] + [SUPER_Q]
PLANS['C01']['thorough'] = PLANS['C01']['thorough'] + [SUPER_Q]
for p in ('C02', 'C03'):
    PLANS[p]['thorough'] = PLANS[p]['thorough'] + [SUPER_Q]

PLANS['C13']['quick'] = PLANS['C13']['quick'] + [PROTO_HOLES_Q]
PLANS['C13']['thorough'] = PLANS['C13']['thorough'] + [PROTO_HOLES_Q]

PLANS['C12']['quick'] = PLANS['C12']['quick'] + [PRINT_Q]
PLANS['C12']['thorough'] = PLANS['C12']['thorough'] + [PRINT_Q]


# ---- deeper scenarios, thorough tier only
DEEP_OPS_T = dict(scenario='block_expr', args=dict(policy=expr_profile([['Bin', 'Call', 'Tpl', 'Assign'], ['Bin', 'Call', 'Tpl', 'Assign', 'Ident', 'Member'], ['Bin', 'Call', 'Ident', 'Lit'], ['Ident']], max_args=(2, 1, 1, 0), props=['substring'], names=['a'], bin_ops=['Add'], assign_ops=['AddAssign'], op_budget=5, spread=False)),
                  label='operations nested three deep (+, +=, template, call around +, +=, template, call, member around +/call), <= 5 non-leaf nodes, depth 4, one name, one method')
TWO_STMTS_T = dict(scenario='program', args=dict(policy=stmt_profile([['Block', 'Decl:Fn'], ['Expr', 'Decl:Var', 'Return'], ['Expr']], [['Bin', 'Call', 'Assign', 'Ident'], ['Ident', 'Call'], ['Ident']], bin_ops=['Add'], assign_ops=['AddAssign'], names=['a'], props=['substring'], params=(0,), block_lens=(2, 3), fn_body_lens=(2, 3), max_args=(1, 0, 0), op_budget=4, all_present=True), kinds=('Script',)),
                   label='blocks / function bodies of 2-3 statements (expression statement / declaration / return), several of them holding operations that need temporaries (numbering and declaration across statements, count independent of statement order)')
NESTED_FN_T = dict(scenario='program', args=dict(policy=stmt_profile([['Decl:Fn'], ['Decl:Fn', 'Return'], ['Decl:Fn', 'Return'], ['Return']], [['Bin', 'Ident'], ['Ident', 'Call'], ['Ident']], bin_ops=['Add'], names=['a'], params=(0,), block_lens=(1, 2), fn_body_lens=(1, 2), op_budget=4, all_present=True), kinds=('Script',)),
                   label='function declarations nested three deep, operations needing temporaries at every level: each `let` belongs to the innermost enclosing function body')

for p in ('C01', 'C02', 'C03', 'C06', 'C15'):
    PLANS[p]['thorough'] = PLANS[p]['thorough'] + [DEEP_OPS_T]
for p in ('C02', 'C04', 'C06', 'C12', 'C15'):
    PLANS[p]['thorough'] = PLANS[p]['thorough'] + [TWO_STMTS_T, NESTED_FN_T]
