"""Scenario registry + per-property plans (which scenarios, which bounds, per tier)."""
from grammars import ExprPolicy
from scenario import BlockScenario, ConfigSpec

LEAF = ['Ident', 'Lit']
LEAF_EFF = ['Ident', 'Lit', 'Call']
OPS = ['Bin', 'Assign', 'Tpl', 'Call']
MID = ['Ident', 'Lit', 'Bin', 'Call', 'Member', 'Paren', 'Array', 'Tpl']
MID_SMALL = ['Ident', 'Lit', 'Bin', 'Call', 'Paren']
CTX = ['Member', 'Paren', 'Array', 'Unary', 'Cond', 'Seq', 'New', 'Await', 'Update', 'Ident', 'Lit']
TOP_ALL = ['Bin', 'Assign', 'Tpl', 'Call', 'Member', 'Paren', 'Array', 'Unary', 'Cond', 'Seq', 'New', 'Await', 'Update', 'Arrow', 'Ident', 'Lit']

DEFAULT_CFG = [
    dict(src='plusOperator', dst=None, operator=True, awc=False),
    dict(src='tplOperator', dst=None, operator=True, awc=False),
    dict(src='substring', dst='stringSubstring', operator=False, awc=False),
    dict(src='concat', dst=None, operator=False, awc=False),
]

# symbolic table: every field of every entry symbolic inside a small universe
SYM_CFG = [
    dict(src=['plusOperator', 'tplOperator', 'concat'], dst=[None, 'dstA'], operator=None, awc=False),
    dict(src=['tplOperator', 'substring', 'plusOperator'], dst=[None, 'dstB'], operator=None, awc=None),
    dict(src=['substring', 'concat', 'foo'], dst=['dstA', 'dstC', None], operator=None, awc=None),
]


def make_scenario(name, args):
    if name == 'block_expr':
        pol = dict(args['policy'])
        ep = ExprPolicy(**pol)
        cfg = ConfigSpec(args.get('config', DEFAULT_CFG), prefix=args.get('prefix', 'test'), verbosity=args.get('verbosity', 'Information'))
        return BlockScenario(ep, cfg)
    raise KeyError(name)


def expr_profile(levels, **kw):
    d = dict(levels=levels, names=['a', 'b'], props=['substring', 'concat', 'foo', 'call', 'apply', 'prototype'], strs=['s'], max_args=(2, 1, 0))
    d.update(kw)
    return d


PLANS = {}


def plan(prop, tier):
    return PLANS[prop][tier]


# operands-focused exploration: every instrumented operation kind at the root, operand shapes below
OPERANDS_Q = dict(scenario='block_expr', args=dict(policy=expr_profile([OPS, MID_SMALL + ['Array', 'Member'], LEAF], max_args=(2, 1, 0), props=['substring', 'concat', 'foo', 'call'])), label='operations x operand shapes, depth 3 (small alphabet)')
OPERANDS_T = dict(scenario='block_expr', args=dict(policy=expr_profile([OPS, MID, LEAF_EFF], max_args=(2, 1, 0))), label='operations x operand shapes, depth 3 (full alphabet, effectful leaves)')
CONTEXTS_Q = dict(scenario='block_expr', args=dict(policy=expr_profile([CTX, OPS, LEAF], max_args=(1, 1, 0), props=['substring', 'foo'])), label='expression contexts x operations, depth 3')
ALL_D2 = dict(scenario='block_expr', args=dict(policy=expr_profile([TOP_ALL, LEAF_EFF, LEAF], max_args=(2, 0, 0))), label='all expression kinds, depth 2')
SYMCFG_Q = dict(scenario='block_expr', args=dict(policy=expr_profile([OPS, LEAF], max_args=(1, 0, 0), props=['substring', 'concat', 'foo']), config=SYM_CFG), label='symbolic method table (3 entries, all fields symbolic) x operations, depth 2')

for p in ('C02', 'C03', 'C06', 'C12', 'C15'):
    PLANS[p] = {'quick': [ALL_D2, OPERANDS_Q], 'thorough': [ALL_D2, OPERANDS_Q, CONTEXTS_Q, OPERANDS_T]}
PLANS['C05'] = {'quick': [SYMCFG_Q, ALL_D2], 'thorough': [SYMCFG_Q, ALL_D2, OPERANDS_Q]}
