"""Value domain of the MIR symbolic executor."""
import z3


class Cell:
    __slots__ = ('v',)

    def __init__(self, v=None):
        self.v = v


class Moved:
    def __repr__(self):
        return '<moved>'


MOVED = Moved()
UNINIT = None


class Adt:
    """struct (variant None) or enum value (variant int, or z3 Int for field-less symbolic enums).
    Lazily initialised symbolic nodes have lazy != None until first inspected."""
    __slots__ = ('ty', 'variant', 'fields', 'lazy', 'meta')

    def __init__(self, ty, variant, fields, lazy=None, meta=None):
        self.ty = ty
        self.variant = variant
        self.fields = fields
        self.lazy = lazy
        self.meta = meta

    def __repr__(self):
        if self.lazy is not None:
            return '<lazy %s %s>' % (self.ty, self.lazy.uid)
        return '%s%s%r' % (self.ty, '' if self.variant is None else '#%s' % (self.variant,), self.fields)


class Tup:
    __slots__ = ('fields',)

    def __init__(self, fields):
        self.fields = fields

    def __repr__(self):
        return 'Tup%r' % (self.fields,)


class VecV:
    """Vec<T>, [T; N], boxed slices: concrete length per path.  items None = lazy (symbolic input list)."""
    __slots__ = ('items', 'lazy', 'elem_ty')

    def __init__(self, items, lazy=None, elem_ty=None):
        self.items = items
        self.lazy = lazy
        self.elem_ty = elem_ty

    def __repr__(self):
        return 'Vec%r' % (self.items,)


class StrV:
    """String / &str / Atom: python str or z3 String term."""
    __slots__ = ('s',)

    def __init__(self, s):
        self.s = s

    def concrete(self):
        return isinstance(self.s, str)

    def z(self):
        return z3.StringVal(self.s) if isinstance(self.s, str) else self.s

    def __repr__(self):
        return 'Str(%r)' % (self.s,)


class Ptr:
    """reference / Box / raw pointer: cell + projection path"""
    __slots__ = ('cell', 'path', 'dyn')

    def __init__(self, cell, path=(), dyn=None):
        self.cell = cell
        self.path = path
        self.dyn = dyn

    def __repr__(self):
        return 'Ptr(%x,%r)' % (id(self.cell) & 0xffffff, self.path)


class FnDef:
    __slots__ = ('path',)

    def __init__(self, path):
        self.path = path

    def __repr__(self):
        return 'FnDef(%s)' % self.path


class Opaque:
    """External object the executor does not look into (Compiler, SourceMap, ...)."""
    __slots__ = ('kind', 'data')

    def __init__(self, kind, data=None):
        self.kind = kind
        self.data = data if data is not None else {}

    def __repr__(self):
        return 'Opaque(%s)' % self.kind

    def __eq__(self, other):
        return isinstance(other, Opaque) and self.kind == other.kind and self.data == other.data

    def __hash__(self):
        return hash(self.kind)


UNIT = Tup([])


def is_sym(v):
    return isinstance(v, z3.ExprRef)


def deep_copy(v):
    """Clone / Copy semantics: structure is copied, pointers are shared, lazy nodes keep their uid."""
    if isinstance(v, Adt):
        if v.lazy is not None:
            return Adt(v.ty, v.variant, None, v.lazy, v.meta)
        return Adt(v.ty, v.variant, [deep_copy(f) for f in v.fields], None, v.meta)
    if isinstance(v, Tup):
        return Tup([deep_copy(f) for f in v.fields])
    if isinstance(v, VecV):
        if v.items is None:
            return VecV(None, v.lazy, v.elem_ty)
        return VecV([deep_copy(f) for f in v.items], None, v.elem_ty)
    return v


def deep_clone(v):
    """Clone that also clones Box contents (Box<T>: Clone allocates a new box)."""
    if isinstance(v, Adt):
        if v.lazy is not None:
            return Adt(v.ty, v.variant, None, v.lazy, v.meta)
        return Adt(v.ty, v.variant, [deep_clone(f) for f in v.fields], None, v.meta)
    if isinstance(v, Tup):
        return Tup([deep_clone(f) for f in v.fields])
    if isinstance(v, VecV):
        if v.items is None:
            return VecV(None, v.lazy, v.elem_ty)
        return VecV([deep_clone(f) for f in v.items], None, v.elem_ty)
    if isinstance(v, Ptr) and v.dyn == 'box':
        return Ptr(Cell(deep_clone(load(v))), (), 'box')
    return v


FORCE = [None]   # set by the interpreter: materialises a lazy node in place


def load(p):
    v = p.cell.v
    for step in p.path:
        v = step_into(v, step)
    return v


def step_into(v, step):
    k = step[0]
    if k == 'f':
        if isinstance(v, Ptr):
            return v  # Box -> Unique -> NonNull -> pointer internals
        if isinstance(v, Opaque):
            return v  # a field of an opaque external value is itself opaque (e.g. `..Default::default()` of an swc options struct)
        if v.fields is None:
            FORCE[0](v)
        return v.fields[step[1]]
    if k == 'i':
        if v.items is None:
            FORCE[0](v)
        return v.items[step[1]]
    raise ValueError(step)
