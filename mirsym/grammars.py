"""Bounded grammars for the symbolic inputs (DESIGN.md section 3: G_expr, G_stmt).

Every restriction here is a *bound of the claim* and is reported in the evidence.
The shape restrictions keep the symbolic trees parser-realisable (what swc's
parser can actually produce), so that a solver model prints to JavaScript that
parses back to the same tree.
"""
import re

import z3

from values import Adt, Tup, VecV, StrV, Ptr, Cell
from symtree import Grammar, LazyInfo, parse_ty
import models

BINOP_PREC = [7, 7, 7, 7, 8, 8, 8, 8, 9, 9, 9, 10, 10, 11, 11, 11, 4, 5, 6, 2, 3, 8, 8, 12, 1]
EXP, NULLISH, IN_OP = 23, 24, 21

TS_NONE_FIELDS = {'type_args', 'type_params', 'return_type', 'type_ann', 'super_type_params', 'accessibility'}

NEVER_EXPR = ['JSXMember', 'JSXNamespacedName', 'JSXEmpty', 'JSXElement', 'JSXFragment', 'TsTypeAssertion', 'TsConstAssertion', 'TsNonNull', 'TsAs', 'TsInstantiation', 'TsSatisfies', 'PrivateName', 'Invalid', 'SuperProp', 'MetaProp', 'TaggedTpl', 'Class', 'Fn']

LOW_PREC = {'Assign', 'Cond', 'Seq', 'Arrow', 'Yield'}


PREC_FN = z3.Function('binop_prec', z3.IntSort(), z3.IntSort())


def prec_axioms():
    return z3.And([PREC_FN(i) == p for i, p in enumerate(BINOP_PREC)])


def prec_of(op):
    """z3 Int term: precedence of a (symbolic) BinaryOp discriminant (uninterpreted function + table axioms)"""
    if isinstance(op, int):
        return z3.IntVal(BINOP_PREC[op])
    return PREC_FN(op)


class ExprPolicy:
    """G_expr.  levels: list of allowed Expr kinds per depth (last entry repeats);
    names: identifier universe; props: member-property universe; strs: literal values."""

    def __init__(self, levels, names, props, strs, max_args=(2, 1, 0), bin_ops=None, assign_ops=None, unary_ops=None, spans='concrete', spread=True, holes=True, optional_call=True, op_budget=None, budget_kinds=('Bin', 'Tpl', 'Call', 'Assign', 'Arrow', 'OptChain', 'New', 'Unary', 'Paren', 'Array', 'Member', 'Cond', 'Seq')):
        self.pins = []                      # [(compiled uid regex, enum name, [variants])] consulted before the level rules
        self.string_pins = []               # [(compiled uid regex, [strings])]
        self.len_pins = []                  # [(compiled uid regex, [lengths])]
        self.opt_pins = []                  # [(compiled uid regex, [0|1,...])]
        self.import_callee = False
        self.super_callee = False           # callee may be `super` (witnesses are printed inside a derived-class constructor)
        self.str_keys = False               # object-literal keys may be quoted strings (PropName::Str)
        self.obj_full = False               # object literals may hold spreads, methods, shorthands and computed keys
        self.pat_full = False               # binding patterns may destructure (arrays / objects with defaults)
        self.private_names = False          # member properties may be private names (`o.#x`)
        self.free_strings = None
        self.concrete_enums = ()
        self.op_budget = op_budget          # max number of non-leaf expression nodes in the whole input (None = unbounded)
        self.budget_kinds = set(budget_kinds)
        self.levels = levels
        self.names = names
        self.props = props
        self.strs = strs
        self.max_args = max_args
        self.bin_ops = bin_ops
        self.assign_ops = assign_ops
        self.unary_ops = unary_ops
        self.spans = spans
        self.spread = spread
        self.holes = holes
        self.optional_call = optional_call

    def level(self, depth):
        e = depth[1] if isinstance(depth, tuple) else depth
        return self.levels[min(e, len(self.levels) - 1)]

    @staticmethod
    def edepth(depth):
        return depth[1] if isinstance(depth, tuple) else depth

    def as_policy(self):
        return {
            'variants': self.variants,
            'vec_lengths': self.vec_lengths,
            'strings': self.strings,
            'options': self.options,
            'make': self.make,
            'spans': self.spans,
            'bools': {},
            'concrete_enums': getattr(self, 'concrete_enums', ()),
        }

    # ---------------------------------------------------------------- variants
    def pin(self, uid_regex, enum, variants):
        self.pins.append((re.compile(uid_regex), enum, variants))
        return self

    def pin_strings(self, uid_regex, strings):
        self.string_pins.append((re.compile(uid_regex), strings))
        return self

    def pin_len(self, uid_regex, lens):
        self.len_pins.append((re.compile(uid_regex), lens))
        return self

    def pin_opt(self, uid_regex, alts):
        self.opt_pins.append((re.compile(uid_regex), alts))
        return self

    def variants(self, g, enum, li):
        uid = li.uid
        for rx, en, vs in self.pins:
            if en == enum and rx.search(uid):
                return vs
        if enum == 'Expr':
            allowed = [k for k in self.level(li.depth) if k not in NEVER_EXPR]
            role = li.role
            f = role[1] if role else None
            owner = role[0] if role else None
            if 'Object' in allowed and not ((owner, f) in (('VarDeclarator', 'init'), ('ExprOrSpread', 'expr'), ('KeyValueProp', 'value'), ('ParenExpr', 'expr'), ('AssignExpr', 'right'), ('ReturnStmt', 'arg'))):
                allowed = [k for k in allowed if k != 'Object']
            if owner == 'BinExpr':
                allowed = [k for k in allowed if k not in LOW_PREC]
                if f == 'right':
                    pass
            elif owner == 'MemberExpr' and f == 'obj':
                allowed = [k for k in allowed if k in ('Ident', 'Call', 'Member', 'Paren', 'Array', 'Lit', 'This', 'Tpl')]
            elif owner == 'Callee::Expr':
                allowed = [k for k in allowed if k in ('Ident', 'Member', 'Paren', 'Call')]
            elif owner == 'OptCall' and f == 'callee':
                allowed = [k for k in allowed if k in ('Ident', 'Member', 'Paren', 'Call', 'OptChain')]
            elif owner == 'UnaryExpr':
                allowed = [k for k in allowed if k in ('Ident', 'Lit', 'Call', 'Member', 'Paren', 'Array', 'Tpl', 'This', 'OptChain')]
            elif owner == 'UpdateExpr':
                allowed = [k for k in allowed if k in ('Ident', 'Member')]
            elif owner == 'CondExpr':
                if f == 'test':
                    allowed = [k for k in allowed if k not in LOW_PREC]
                else:
                    allowed = [k for k in allowed if k not in ('Seq',)]
            elif owner in ('AssignExpr', 'SeqExpr', 'ExprOrSpread', 'SpreadElement', 'VarDeclarator', 'AssignPat', 'KeyValueProp', 'ClassProp'):
                allowed = [k for k in allowed if k != 'Seq']
            elif owner == 'NewExpr' and f == 'callee':
                allowed = [k for k in allowed if k in ('Ident', 'Member', 'Paren')]
            elif owner == 'AwaitExpr':
                # `await` binds like a unary operator
                allowed = [k for k in allowed if k in ('Ident', 'Lit', 'Call', 'Member', 'Paren', 'Array', 'Tpl', 'This', 'Await')]
            elif owner == 'YieldExpr':
                allowed = [k for k in allowed if k != 'Seq']
            elif owner == 'ComputedPropName':
                allowed = [k for k in allowed if k != 'Seq']
            elif owner in ('ArrowExpr', 'BlockStmtOrExpr::Expr'):
                allowed = [k for k in allowed if k not in ('Seq', 'Object')]
            elif owner == 'Class' and f == 'super_class':
                allowed = [k for k in allowed if k in ('Ident', 'Member', 'Call', 'Paren')]
            elif owner == 'ExprStmt':
                allowed = [k for k in allowed if k not in ('Object', 'Fn', 'Class')]
            if owner == 'MemberExpr' and f == 'obj' and '/OptChain.base/Member' in uid:
                # obj of an optional-chain link
                allowed = [k for k in self.level(li.depth) if k in ('Ident', 'Member', 'Call', 'Paren', 'OptChain', 'Array', 'This')]
            dirs = getattr(self, 'directives', None)
            if dirs and owner == 'ExprStmt':
                m = re.search(r'(?:\.body|\.stmts)\[(\d+)\](?:/Stmt)?/Expr\.expr$', uid)
                if m and int(m.group(1)) < dirs and '/Block.stmts' not in uid[-40:]:
                    return ['Lit', 'Ident']
            if self.op_budget is not None and len(g.ctx.notes.get('ops_uids', ())) >= self.op_budget:
                allowed = [k for k in allowed if k not in self.budget_kinds]
            if not allowed:
                allowed = ['Ident']
            return allowed
        if enum == 'Stmt':
            return ['Return', 'Expr']
        if enum == 'Lit':
            if uid.endswith('.obj/Lit'):
                return ['Str']
            if getattr(self, 'directives', None) and re.search(r'(?:\.body|\.stmts)\[\d+\](?:/Stmt)?/Expr\.expr/Lit$', uid):
                return ['Str']
            return ['Str', 'Num', 'Null']
        if enum == 'Callee':
            if getattr(self, 'super_callee', False):
                return ['Expr', 'Super']
            return ['Expr', 'Import'] if self.import_callee else ['Expr']
        if enum == 'MemberProp':
            return ['Ident', 'Computed', 'PrivateName'] if self.private_names else ['Ident', 'Computed']
        if enum == 'AssignTarget':
            return ['Simple', 'Pat']
        if enum == 'SimpleAssignTarget':
            return ['Ident', 'Member']
        if enum == 'AssignTargetPat':
            return ['Array']
        if enum == 'Pat':
            if li.role and li.role[0] == 'AssignPat' and li.role[1] == 'left':
                return ['Ident']
            if li.role and li.role[0] in ('ArrayPat',):
                return ['Ident']
            return ['Ident', 'Assign']
        if enum == 'BlockStmtOrExpr':
            return ['Expr', 'BlockStmt']
        if enum == 'OptChainBase':
            return ['Member', 'Call'] if self.optional_call else ['Member']
        if enum == 'BinaryOp' and self.bin_ops:
            return self.bin_ops
        if enum == 'AssignOp' and self.assign_ops:
            return self.assign_ops
        if enum == 'UnaryOp' and self.unary_ops:
            return self.unary_ops
        if enum == 'PropOrSpread':
            return ['Prop', 'Spread'] if getattr(self, 'obj_full', False) else ['Prop']
        if enum == 'Prop':
            return ['KeyValue', 'Method', 'Shorthand'] if getattr(self, 'obj_full', False) else ['KeyValue']
        if enum == 'PropName':
            if getattr(self, 'obj_full', False):
                return ['Ident', 'Computed']
            return ['Ident', 'Str'] if self.str_keys else ['Ident']
        return None

    # ---------------------------------------------------------------- vec lengths
    def vec_lengths(self, g, li, elem_ty):
        for rx, lens in self.len_pins:
            if rx.search(li.uid):
                return lens
        role = li.role
        owner, f = role if role else (None, None)
        d = min(self.edepth(li.depth), len(self.max_args) - 1)
        if f == 'args':
            return list(range(0, self.max_args[d] + 1))
        if owner == 'Tpl' and f == 'exprs':
            return [1, 2] if self.edepth(li.depth) <= 1 else [1]
        if owner == 'ArrayLit':
            return [0, 1, 2] if self.edepth(li.depth) <= 1 else [0, 1]
        if owner == 'SeqExpr':
            return [2]
        if owner == 'ArrowExpr' and f == 'params':
            return [0, 1]
        if owner == 'ArrayPat':
            return [1]
        if owner == 'BlockStmt':
            return [0, 1]
        if owner == 'ObjectLit':
            return [0, 1]
        return [0, 1]

    # ---------------------------------------------------------------- strings
    def strings(self, g, li):
        for rx, strs in self.string_pins:
            if rx.search(li.uid):
                return strs
        role = li.role
        owner, f = role if role else (None, None)
        if owner == 'Ident' and f == 'sym':
            return self.names
        if owner == 'IdentName':
            return self.props
        if owner == 'Str' and f == 'value':
            return self.strs
        if owner == 'TplElement':
            return ['q']
        return ['x']

    # ---------------------------------------------------------------- options
    def options(self, g, li):
        for rx, alts in self.opt_pins:
            if rx.search(li.uid):
                return alts
        role = li.role
        owner, f = role if role else (None, None)
        if f in TS_NONE_FIELDS:
            return [0]
        if owner == 'ExprOrSpread' and f == 'spread':
            if not self.spread:
                return [0]
            return [0, 1]
        if owner == 'ArrayLit' and f == 'elems':
            # Vec<Option<ExprOrSpread>> elements: holes
            return [1, 0] if self.holes else [1]
        if owner == 'NewExpr' and f == 'args':
            return [1, 0]
        if owner == 'YieldExpr' and f == 'arg':
            return [1]
        if owner == 'ReturnStmt' and f == 'arg':
            return [1]
        if owner == 'TplElement' and f == 'cooked':
            return [1]
        return None

    # ---------------------------------------------------------------- custom construction
    def make(self, g, ty, uid, depth, role):
        head, gen = parse_ty(ty)
        ctx = g.ctx
        if head == 'Str':
            if getattr(self, 'free_strings', None) and not re.search(r'(?:\.body|\.stmts)\[\d+\](?:/Stmt)?/Expr\.expr/Lit/Str$', uid):
                # free string literal: contents abstract, *length* an independent symbolic integer (the solver never has to
                # build long strings); equal strings have equal lengths
                sv = ctx.var('s!' + uid + '.value', z3.StringSort())
                nv = ctx.var('n!' + uid + '.value', z3.IntSort())
                if sv.get_id() not in ctx.notes.setdefault('free_len_ids', set()):
                    ctx.notes['free_len_ids'].add(sv.get_id())
                    lo, hi = self.free_strings
                    ctx.add(z3.And(nv >= lo, nv <= hi), dom=False)
                    for (sv2, nv2) in ctx.notes.setdefault('free_strings', []):
                        ctx.add(z3.Implies(sv == sv2, nv == nv2), dom=False)
                    ctx.notes['free_strings'].append((sv, nv))
                    models.FREE_LEN[sv.get_id()] = nv
                return Adt('Str', None, [g.make_span(uid + '.span', None), StrV(sv), models.none()], None, {'uid': uid})
            val = g.make('Atom', uid + '.value', depth, ('Str', 'value'))
            if getattr(self, 'quotes', None):
                q = ctx.var('s!' + uid + '.quote', z3.StringSort())
                if q.get_id() not in ctx.dom:
                    ctx.set_domain(q, self.quotes)
                    ctx.add(z3.Or([q == z3.StringVal(x) for x in self.quotes]), dom=False)
                raw = models.str_concat([StrV(q), val, StrV(q)])
            else:
                raw = models.str_concat([StrV('"'), val, StrV('"')])
            return Adt('Str', None, [g.make_span(uid + '.span', None), val, models.some(raw)], None, {'uid': uid})
        if head == 'Number':
            return Adt('Number', None, [g.make_span(uid + '.span', None), 7.0, models.some(StrV('7'))], None, {'uid': uid})
        if head == 'Tpl':
            exprs = VecV(None, LazyInfo(uid + '.exprs', 'Vec<Box<Expr>>', depth, ('Tpl', 'exprs')), 'Box<Expr>')
            Grammar.force(g, None, exprs)   # the number of substitutions is decided when the template is created
            n = len(exprs.items) + 1
            quasis = []
            for i in range(n):
                raw = StrV('q%d' % i)
                quasis.append(Adt('TplElement', None, [g.make_span('%s.quasis[%d].span' % (uid, i), None), i == n - 1, models.some(raw), raw]))
            return Adt('Tpl', None, [g.make_span(uid + '.span', None), exprs, VecV(quasis)], None, {'uid': uid})
        if head == 'Ident':
            return Adt('Ident', None, [g.make_span(uid + '.span', None), Adt('SyntaxContext', None, [0]), g.make('Atom', uid + '.sym', depth, ('Ident', 'sym')), False], None, {'uid': uid})
        if head == 'bool':
            if role and role[1] in ('is_async', 'is_generator', 'definite', 'declare', 'delegate', 'is_static', 'is_abstract', 'is_optional', 'is_override', 'readonly', 'tail'):
                return False
            if role and role[1] == 'prefix':
                return True
        if head == 'BinExpr':
            return self.make_bin(g, uid, depth)
        if head == 'OptChainExpr':
            return self.make_optchain(g, uid, depth)
        if head == 'UnaryExpr':
            return self.make_unary(g, uid, depth)
        if head == 'AssignExpr':
            return self.make_assign(g, uid, depth)
        return None

    def make_bin(self, g, uid, depth):
        ctx = g.ctx
        op = g.make('BinaryOp', uid + '.op', depth, ('BinExpr', 'op'))
        left = g.make('Box<Expr>', uid + '.left', depth, ('BinExpr', 'left'))
        right = g.make('Box<Expr>', uid + '.right', depth, ('BinExpr', 'right'))
        # precedence constraint with a parent BinExpr (parser realisability)
        ops = ctx.notes.setdefault('binops', {})
        ops[uid] = op.variant
        m = re.match(r'^(.*)\.(left|right)/Bin$', uid)
        if m and m.group(1) in ops:
            pop = ops[m.group(1)]
            cop = op.variant
            if isinstance(pop, int) and isinstance(cop, int):
                bad = pop in (EXP, NULLISH, IN_OP) or cop in (EXP, NULLISH, IN_OP)
                okp = BINOP_PREC[cop] >= BINOP_PREC[pop] if m.group(2) == 'left' else BINOP_PREC[cop] > BINOP_PREC[pop]
                if bad or not okp:
                    from interp import Infeasible
                    raise Infeasible('operator precedence: not parser-realisable without parentheses')
            else:
                if not ctx.notes.get('prec_axioms'):
                    ctx.notes['prec_axioms'] = True
                    ctx.add(prec_axioms(), dom=False)
                zp = pop if not isinstance(pop, int) else z3.IntVal(pop)
                zc = cop if not isinstance(cop, int) else z3.IntVal(cop)
                safe = z3.And(zp != EXP, zp != NULLISH, zc != EXP, zc != NULLISH, zp != IN_OP, zc != IN_OP)
                if m.group(2) == 'left':
                    ctx.add(z3.And(safe, prec_of(zc) >= prec_of(zp)))
                else:
                    ctx.add(z3.And(safe, prec_of(zc) > prec_of(zp)))
        return Adt('BinExpr', None, [g.make_span(uid + '.span', None), op, left, right], None, {'uid': uid})

    def make_unary(self, g, uid, depth):
        op = g.make('UnaryOp', uid + '.op', depth, ('UnaryExpr', 'op'))
        arg = g.make('Box<Expr>', uid + '.arg', depth, ('UnaryExpr', 'arg'))
        return Adt('UnaryExpr', None, [g.make_span(uid + '.span', None), op, arg], None, {'uid': uid, 'constraint': 'unary'})

    def make_assign(self, g, uid, depth):
        op = g.make('AssignOp', uid + '.op', depth, ('AssignExpr', 'op'))
        g.ctx.notes.setdefault('assignops', {})[uid] = op.variant
        left = g.make('AssignTarget', uid + '.left', depth, ('AssignExpr', 'left'))
        right = g.make('Box<Expr>', uid + '.right', depth, ('AssignExpr', 'right'))
        return Adt('AssignExpr', None, [g.make_span(uid + '.span', None), op, left, right], None, {'uid': uid})

    def make_optchain(self, g, uid, depth):
        optional = g.make('bool', uid + '.optional', depth, ('OptChainExpr', 'optional'))
        base = g.make('Box<OptChainBase>', uid + '.base', depth, ('OptChainExpr', 'base'))
        return Adt('OptChainExpr', None, [g.make_span(uid + '.span', None), optional, base], None, {'uid': uid})


class TplQuasis(VecV):
    """quasis of a template: always len(exprs)+1, materialised together with exprs"""
    __slots__ = ('g', 'uid', 'exprs')

    def __init__(self, g, uid, exprs):
        VecV.__init__(self, None, LazyInfo(uid + '.quasis', 'Vec<TplElement>', 0, ('Tpl', 'quasis')), 'TplElement')
        self.g = g
        self.uid = uid
        self.exprs = exprs


class ExprGrammar(Grammar):
    """Grammar with the extra cross-node constraints of G_expr."""

    def __init__(self, ctx, program, ep):
        Grammar.__init__(self, ctx, program, ep.as_policy())
        self.ep = ep

    def force(self, I, v):
        if isinstance(v, TplQuasis):
            if v.exprs.items is None:
                Grammar.force(self, I, v.exprs)
            n = len(v.exprs.items) + 1
            v.items = []
            for i in range(n):
                raw = StrV('q%d' % i)
                v.items.append(Adt('TplElement', None, [self.make_span('%s.quasis[%d].span' % (v.uid, i), None), i == n - 1, models.some(raw), raw]))
            v.lazy = None
            return
        li = v.lazy
        Grammar.force(self, I, v)
        if isinstance(v, Adt) and li is not None:
            self.post_force(v, li)

    def post_force(self, v, li):
        ctx = self.ctx
        n0 = len(ctx.pc)
        doms = {k: set(d) for k, d in ctx.dom.items()} if False else None
        # evaluate the constraints that are about to be added against the finite domains *before* they narrow them
        pre_add = ctx.add
        verdicts = []

        def add(c, dom=True):
            if c is not True and c is not False and isinstance(c, z3.ExprRef):
                verdicts.append(ctx.dom_eval(c))
            pre_add(c, dom)
        ctx.add = add
        try:
            self.post_force0(v, li)
        finally:
            ctx.add = pre_add
        if not ctx.completing and verdicts:
            if any(r == 'F' for r in verdicts) or (any(r is None for r in verdicts) and not ctx.check()):
                from interp import Infeasible
                raise Infeasible('grammar constraint contradicts the path condition')

    def post_force0(self, v, li):
        ctx = self.ctx
        uid = li.uid
        if v.ty == 'Expr':
            vn = self.defs['Expr'].variants[v.variant][0]
            if vn in self.ep.budget_kinds:
                ctx.notes.setdefault('ops_uids', set()).add(uid)
            # `-a ** b` / `await a ** b` are syntax errors: a unary left operand excludes the exponentiation operator
            m = re.match(r'^(.*)\.left$', uid)
            if m and li.role and li.role[0] == 'BinExpr' and vn in ('Unary', 'Await'):
                pop = ctx.notes.get('binops', {}).get(m.group(1))
                if isinstance(pop, int):
                    if pop == EXP:
                        from interp import Infeasible
                        raise Infeasible('unary operand of **')
                elif pop is not None:
                    ctx.add(pop != EXP)
            # delete needs a member operand (strict-mode parse error otherwise)
            m = re.match(r'^(.*)\.arg$', uid)
            if m and ('e!' + m.group(1) + '.op') in ctx.vars and li.role and li.role[0] == 'UnaryExpr':
                if vn not in ('Member', 'OptChain'):
                    ctx.add(ctx.vars['e!' + m.group(1) + '.op'] != 6)
            # a non-optional chain link must continue a chain
            m = re.match(r'^(.*)\.base/(Member\.obj|Call\.callee)$', uid)
            if m and ('b!' + m.group(1) + '.optional') in ctx.vars:
                if vn != 'OptChain':
                    ctx.add(ctx.vars['b!' + m.group(1) + '.optional'])
        if v.ty == 'AssignTarget':
            vn = self.defs['AssignTarget'].variants[v.variant][0]
            m = re.match(r'^(.*)\.left$', uid)
            if vn == 'Pat' and m and ('e!' + m.group(1) + '.op') in ctx.vars:
                ctx.add(ctx.vars['e!' + m.group(1) + '.op'] == 0)
            elif vn == 'Pat' and m and isinstance(ctx.notes.get('assignops', {}).get(m.group(1)), int) and ctx.notes['assignops'][m.group(1)] != 0:
                from interp import Infeasible
                raise Infeasible('destructuring target with a compound assignment operator')


def materialise_input(g, root_ty, root_uid, depth=0, role=None):
    """Rebuild the *input* tree of a finished path from its decision table (the executed tree was mutated in place).
    Nodes the code never inspected stay lazy (= arbitrary)."""
    root = g.make(root_ty, root_uid, depth, role)
    dec = g.ctx.decisions

    def walk(v):
        while isinstance(v, Ptr):
            v = v.cell.v
        if isinstance(v, TplQuasis):
            if v.exprs.items is None and ('len:' + v.exprs.lazy.uid) in dec:
                g.force(None, v.exprs)
            if v.exprs.items is not None and v.items is None:
                g.force(None, v)
            if v.items:
                for x in v.items:
                    walk(x)
            return
        if isinstance(v, VecV):
            if v.items is None:
                if ('len:' + v.lazy.uid) in dec:
                    g.force(None, v)
                else:
                    return
            for x in v.items:
                walk(x)
            return
        if isinstance(v, Adt):
            if v.lazy is not None:
                head, _ = parse_ty(v.lazy.ty)
                key = ('opt:' if head == 'Option' else 'var:') + v.lazy.uid
                if key in dec:
                    g.force(None, v)
                else:
                    return
            for x in v.fields:
                walk(x)
            return
        if isinstance(v, Tup):
            for x in v.fields:
                walk(x)
    walk(root)
    return root


def complete_tree(g, v):
    """Model completion: force every remaining lazy node below v with the grammar's first alternative."""
    ctx = g.ctx
    old = ctx.completing
    ctx.completing = True
    try:
        def walk(v):
            while isinstance(v, Ptr):
                v = v.cell.v
            if isinstance(v, VecV):
                if v.items is None:
                    g.force(None, v)
                for x in v.items:
                    walk(x)
                return
            if isinstance(v, Adt):
                if v.lazy is not None:
                    g.force(None, v)
                for x in v.fields:
                    walk(x)
                return
            if isinstance(v, Tup):
                for x in v.fields:
                    walk(x)
        walk(v)
    finally:
        ctx.completing = old
    return v


# ---------------------------------------------------------------------------------------------
# G_stmt

NO_DECL_BODY = {('IfStmt', 'cons'), ('IfStmt', 'alt'), ('WhileStmt', 'body'), ('DoWhileStmt', 'body'), ('ForStmt', 'body'), ('ForInStmt', 'body'), ('ForOfStmt', 'body'), ('LabeledStmt', 'body')}


class StmtPolicy(ExprPolicy):
    """G_stmt: statements (per statement-nesting level) whose expression slots hold G_expr expressions.
    stmt_levels[s] = allowed Stmt kinds at statement nesting s (1 = top-level item, 2 = inside it, ...).
    Decl kinds are written 'Decl:Var', 'Decl:Fn', 'Decl:Class'."""

    def __init__(self, stmt_levels, levels, names, props, strs, items=(1,), block_lens=(1,), directives=None, class_members=('Method', 'ClassProp', 'StaticBlock'), params=(0, 1), all_present=False, quotes=None, fn_body_lens=None, **kw):
        self.all_present = all_present
        self.module_import = False
        self.quotes = quotes
        self.fn_body_lens = fn_body_lens
        ExprPolicy.__init__(self, levels, names, props, strs, **kw)
        self.stmt_levels = stmt_levels
        self.items = list(items)
        self.block_lens = list(block_lens)
        self.directives = directives     # None or list of raw strings allowed for leading directive statements
        self.class_members = list(class_members)
        self.params = list(params)

    def slevel(self, depth):
        s = depth[0] if isinstance(depth, tuple) else depth
        if s - 1 >= len(self.stmt_levels):
            return ['Expr']      # beyond the stated nesting bound: only non-recursive statements
        return self.stmt_levels[max(s - 1, 0)]

    def variants(self, g, enum, li):
        role = li.role
        owner, f = role if role else (None, None)
        if enum == 'Stmt':
            if self.directives:
                m = re.search(r'(?:P\.body|\.body\?\.stmts)\[(\d+)\](?:/Stmt)?$', li.uid)
                if m and int(m.group(1)) < self.directives:
                    return ['Expr']
            kinds = self.slevel(self.next_sdepth(li.depth))
            out = []
            for k in kinds:
                k0 = k.split(':')[0]
                if k0 == 'Decl' and (owner, f) in NO_DECL_BODY:
                    continue
                if k0 not in out:
                    out.append(k0)
            return out or ['Empty']
        if enum == 'Decl':
            kinds = self.slevel(li.depth)
            out = [k.split(':')[1] for k in kinds if k.startswith('Decl:')]
            return out or ['Var']
        if enum == 'ModuleItem':
            if getattr(self, 'module_import', False) and li.uid.endswith('P.body[0]'):
                return ['Stmt', 'ModuleDecl']
            return ['Stmt']
        if enum == 'ModuleDecl':
            return ['Import']
        if enum == 'ImportPhase':
            return ['Evaluation']
        if enum == 'VarDeclOrExpr':
            return ['VarDecl', 'Expr']
        if enum == 'ForHead':
            return ['VarDecl', 'Pat']
        if enum == 'ClassMember':
            return self.class_members
        if enum == 'MethodKind':
            return ['Method']
        if enum == 'Pat':
            if getattr(self, 'pat_full', False):
                # destructuring: one level of array / object patterns, defaults inside them
                if owner == 'VarDeclarator' and '.left/VarDecl' not in li.uid:
                    return ['Ident', 'Array', 'Object']
                if owner in ('Param', 'ArrowExpr'):
                    return ['Ident', 'Assign', 'Array', 'Object']
                if owner in ('ArrayPat', 'KeyValuePatProp'):
                    return ['Ident', 'Assign']
                return ['Ident']
            if owner in ('Param', 'ArrowExpr'):
                return ['Ident', 'Assign']
            return ['Ident']
        if enum == 'ObjectPatProp':
            return ['KeyValue', 'Assign']
        if enum == 'VarDeclKind':
            if owner == 'VarDecl' and ('.left/VarDecl' in li.uid):
                return ['Var', 'Let', 'Const']
            return ['Var', 'Let', 'Const']
        return ExprPolicy.variants(self, g, enum, li)

    @staticmethod
    def next_sdepth(depth):
        return (depth[0] + 1, 0) if isinstance(depth, tuple) else depth + 1

    def vec_lengths(self, g, li, elem_ty):
        role = li.role
        owner, f = role if role else (None, None)
        if owner in ('Script', 'Module'):
            return self.items
        if owner == 'BlockStmt':
            if self.fn_body_lens and li.uid.endswith('.body?.stmts'):
                return self.fn_body_lens
            return self.block_lens
        if owner == 'SwitchStmt':
            return [1, 2]
        if owner == 'SwitchCase':
            return [1]
        if owner == 'VarDecl':
            return [1]
        if owner == 'Function' and f == 'params':
            return self.params
        if owner in ('Function', 'Param', 'Class', 'ClassProp') and f in ('decorators', 'implements'):
            return [0]
        if owner == 'ImportDecl':
            return [0]
        if owner == 'Class' and f == 'body':
            return [1]
        if owner == 'Constructor':
            return [0]
        return ExprPolicy.vec_lengths(self, g, li, elem_ty)

    def options(self, g, li):
        role = li.role
        owner, f = role if role else (None, None)
        if owner == 'IfStmt' and f == 'alt':
            return [0, 1]
        if owner == 'ImportDecl' and f == 'with':
            return [0]          # import attributes are outside the grammar (and not printed)
        if self.all_present and (owner, f) in (('ForStmt', 'init'), ('ForStmt', 'test'), ('ForStmt', 'update'), ('ReturnStmt', 'arg'), ('TryStmt', 'handler'), ('TryStmt', 'finalizer'), ('CatchClause', 'param'), ('VarDeclarator', 'init'), ('ClassProp', 'value')):
            return [1]
        if self.all_present and (owner, f) in (('Class', 'super_class'),):
            return [1]
        if owner == 'ForStmt':
            return [1, 0]
        if owner == 'ReturnStmt':
            return [1, 0]
        if owner == 'TryStmt':
            return [1, 0]
        if owner == 'CatchClause':
            return [1, 0]
        if owner == 'SwitchCase' and f == 'test':
            # at most one `default:` (only the first case may be the default in this grammar)
            return [1, 0] if '.cases[0].' in li.uid[-16:] else [1]
        if owner == 'VarDeclarator' and f == 'init':
            return [1, 0]
        if owner == 'Function' and f == 'body':
            return [1]
        if owner == 'Class' and f == 'super_class':
            return [0, 1]
        if owner == 'ClassProp' and f == 'value':
            return [1, 0]
        if owner in ('Script', 'Module') and f == 'shebang':
            return [0]
        if owner == 'FnExpr' and f == 'ident':
            return [0, 1]
        return ExprPolicy.options(self, g, li)

    def strings(self, g, li):
        role = li.role
        owner, f = role if role else (None, None)
        return ExprPolicy.strings(self, g, li)

    def make(self, g, ty, uid, depth, role):
        head, gen = parse_ty(ty)
        if head == 'bool' and role and role[1] in ('is_await', 'type_only'):
            return False
        return ExprPolicy.make(self, g, ty, uid, depth, role)


class StmtGrammar(ExprGrammar):
    def post_force0(self, v, li):
        ExprGrammar.post_force0(self, v, li)
        ctx = self.ctx
        uid = li.uid
        # try needs a handler or a finalizer
        if v.ty == 'Option' and li.role == ('TryStmt', 'finalizer'):
            hk = 'opt:' + uid.replace('.finalizer', '.handler')
            if v.variant == 0 and ctx.decisions.get(hk) == 0:
                from interp import Infeasible
                raise Infeasible('try without catch/finally')
        # const declarations need an initialiser (outside for-in/of heads)
        if v.ty == 'Option' and li.role == ('VarDeclarator', 'init') and v.variant == 0:
            m = re.match(r'^(.*)\.decls\[\d+\]\.init$', uid)
            if m and ('e!' + m.group(1) + '.kind') in ctx.vars and '.left/VarDecl' not in uid:
                ctx.add(ctx.vars['e!' + m.group(1) + '.kind'] != 2)
        if v.ty == 'Option' and li.role == ('VarDeclarator', 'init') and v.variant == 1 and '.left/VarDecl' in uid:
            from interp import Infeasible
            raise Infeasible('for-in/of head with initialiser')
