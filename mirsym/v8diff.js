// V8 differential runner: executes an input program and its rewritten output in identical recording realms
// (every free name is an outside object whose every interaction is logged; hooks are pass-through) and compares
// effect log, implicit string coercions (as a multiset: the property tolerates their timing), completion and exception class.
//
// protocol: one JSON request per line on stdin  {id, a, b, names, kinds}  ->  one JSON answer per line
'use strict';
const vm = require('vm');
const readline = require('readline');

const LOG_LIMIT = 400;
const PASS_THROUGH = new Set(['undefined', 'NaN', 'Infinity', 'Symbol']);

class LogLimit extends Error {}

function makeRealm(assign, nullAt) {
  const log = [];
  const prim = [];
  const labels = new WeakMap();
  const scopeRef = { scope: null };
  const statics = new Map();
  let created = 0;
  let depth = 0;

  function push(ev) {
    if (log.length >= LOG_LIMIT) throw new LogLimit('log limit');
    log.push(ev);
  }

  function describe(v, d) {
    d = d || 0;
    if (v === null) return 'null';
    const t = typeof v;
    if (t === 'undefined') return 'undefined';
    if (t === 'string') return 'str:' + v;
    if (t === 'number' || t === 'boolean' || t === 'bigint') return t + ':' + String(v);
    if (t === 'symbol') return 'symbol';
    if (v === scopeRef.scope) return 'undefined';      // `this` of a bare call: an artefact of resolving names through `with`
    if (labels.has(v)) return 'obj:' + labels.get(v);
    if (t === 'function') return 'closure';
    if (d > 3) return '...';
    if (Array.isArray(v)) {
      const parts = [];
      for (let i = 0; i < v.length; i++) parts.push(i in v ? describe(v[i], d + 1) : '<hole>');
      return '[' + parts.join(',') + ']';
    }
    const tag = Object.prototype.toString.call(v);      // (values come from another realm: no instanceof)
    if (tag === '[object Promise]') return 'promise';
    if (tag === '[object RegExp]') return 'regex:' + String(v);
    if (tag === '[object Error]') return 'error:' + errName(v);
    let keys;
    try { keys = Object.keys(v); } catch (e) { return 'object'; }
    return '{' + keys.map((k) => k + ':' + describe(v[k], d + 1)).join(',') + '}';
  }

  function result(label) {
    const n = created++;
    if (nullAt !== null && n === nullAt) return undefined;
    return mk(label + '@' + n, false);
  }

  function callCallbacks(args) {
    // an outside object may call the closures it is handed: do so once, so that code inside closures is exercised
    if (depth >= 2) return;
    for (const a of args) {
      if (typeof a === 'function' && !labels.has(a)) {
        depth++;
        try {
          const r = a(mk('cbarg0#' + log.length, false), mk('cbarg1#' + log.length, false));
          push(['callback-returned', describe(r)]);
        } catch (e) {
          if (e instanceof LogLimit) throw e;
          push(['callback-threw', errName(e)]);
        } finally {
          depth--;
        }
      }
    }
  }

  function mk(label, isStatic) {
    const target = function () {};
    const p = new Proxy(target, {
      get(t, k) {
        if (typeof k === 'symbol') {
          if (k === Symbol.toPrimitive) {
            return function (hint) {
              if (hint === 'string') prim.push(label);
              else push(['toPrimitive', label, hint]);
              return 'P<' + label + '>';
            };
          }
          if (k === Symbol.iterator) {
            push(['iterate', label]);
            return function* () { yield mk(label + '[it0]', false); };
          }
          return undefined;
        }
        if (k === 'call') return function (thisArg, ...args) { return Reflect.apply(p, thisArg, args); };
        if (k === 'apply') return function (thisArg, args) { return Reflect.apply(p, thisArg, args == null ? [] : Array.from(args)); };
        if (k === 'then') { push(['get', label, 'then']); return undefined; }
        if (isStatic || k === 'prototype') {
          // static X.prototype.m paths: reads are not observable events (tolerated reordering in the property)
          const key = label + '.' + k;
          if (!statics.has(key)) statics.set(key, mk(key, true));
          return statics.get(key);
        }
        push(['get', label, k]);
        return result(label + '.' + k);
      },
      set(t, k, v) { push(['set', label, String(k), describe(v)]); return true; },
      has(t, k) { push(['has', label, String(k)]); return true; },
      deleteProperty(t, k) { push(['delete', label, String(k)]); return true; },
      ownKeys(t) { push(['keys', label]); return ['prototype']; },
      apply(t, thisArg, args) {
        push(['call', label, describe(thisArg), args.map((a) => describe(a))]);
        callCallbacks(args);
        return result(label + '()');
      },
      construct(t, args) {
        push(['new', label, args.map((a) => describe(a))]);
        callCallbacks(args);
        const r = result('new ' + label);
        return (r === undefined || r === null) ? mk('new ' + label + '!', false) : r;
      },
    });
    labels.set(p, label);
    return p;
  }

  const store = Object.create(null);
  const hooks = new Proxy({}, { get() { return function (r) { return r; }; } });
  store._ddiast = hooks;
  const scope = new Proxy(store, {
    has(t, k) { return typeof k === 'string' && !PASS_THROUGH.has(k); },
    get(t, k) {
      if (typeof k === 'symbol') return undefined;
      if (!(k in store)) {
        const kind = assign[k] || 'obj';
        store[k] = kind === 'obj' ? mk(k, false) : kind === 'null' ? null : kind === 'undefined' ? undefined : kind === 'zero' ? 0 : kind === 'str' ? 's_' + k : mk(k, false);
      }
      return store[k];
    },
    set(t, k, v) {
      push(['assign', String(k), describe(v)]);
      store[k] = v;
      if (typeof v === 'function' && !labels.has(v)) callCallbacks([v]);
      return true;
    },
    deleteProperty(t, k) { push(['delete-name', String(k)]); delete store[k]; return true; },
  });
  // a bare call `f()` of a name resolved through `with (scope)` receives the scope object as `this`: name it, so that its
  // contents (which differ between input and output: injected temporaries) are not part of the log
  scopeRef.scope = scope;
  return { log, prim, scope, describe, thisObj: mk('this', false), isProxy: (v) => (typeof v === 'object' || typeof v === 'function') && v !== null && labels.has(v) };
}

function errName(e, realm) {
  if (e === null || e === undefined) return String(e);
  if (typeof e === 'object' || typeof e === 'function') {
    if (realm && realm.isProxy(e)) return 'thrown-outside-object';
    if (Object.prototype.toString.call(e) === '[object Error]') {
      const n = e.constructor && e.constructor.name;
      return typeof n === 'string' ? n : 'Error';
    }
    return 'thrown-object';
  }
  return 'thrown:' + typeof e + ':' + String(e);
}

function compile(code) {
  // the program runs as the body of a sloppy async function, inside `with (scope)`, so every free name resolves to the realm
  const src = '(async function (scope) { with (scope) {\n' + code + '\n} }).call(globalThis.__v8d_this, globalThis.__v8d_scope)';
  return new vm.Script(src, { filename: 'witness.js' });
}

async function runOne(script, assign, nullAt) {
  const realm = makeRealm(assign, nullAt);
  let outcome;
  try {
    // a fresh V8 context per run: built-ins the program reaches through literals (`"s".substring.x = ..`) start pristine
    const context = vm.createContext({ __v8d_this: realm.thisObj, __v8d_scope: realm.scope });
    // (the timeout covers the synchronous part of the call; code after an `await` is bounded by the log limit only)
    const promise = script.runInContext(context, { timeout: 250 });
    let timer;
    const guard = new Promise((resolve) => { timer = setTimeout(() => resolve({ pending: true }), 300); });
    const r = await Promise.race([promise.then((v) => ({ value: v }), (e) => ({ error: e })), guard]);
    clearTimeout(timer);
    if (r.pending) outcome = ['pending'];
    else if ('error' in r) {
      if (r.error instanceof LogLimit) outcome = ['log-limit'];
      else outcome = ['throw', errName(r.error, realm)];
    } else outcome = ['return', realm.describe(r.value)];
  } catch (e) {
    if (e instanceof LogLimit) outcome = ['log-limit'];
    else if (e && e.code === 'ERR_SCRIPT_EXECUTION_TIMEOUT') outcome = ['timeout'];
    else outcome = ['throw', errName(e, realm)];
  }
  return { log: realm.log, prim: realm.prim.slice().sort(), outcome };
}

function product(names, kinds) {
  let out = [{}];
  for (const n of names) {
    const next = [];
    for (const o of out) for (const k of kinds) next.push(Object.assign({}, o, { [n]: k }));
    out = next;
  }
  return out;
}

async function handle(req) {
  let sa, sb;
  try { sa = compile(req.a); } catch (e) { return { id: req.id, verdict: 'skipped', why: 'input does not compile in the harness: ' + e.message }; }
  try { sb = compile(req.b); } catch (e) { return { id: req.id, verdict: 'differ', why: 'output does not compile: ' + e.message, variant: null }; }
  const kinds = req.kinds || ['obj', 'null', 'zero'];
  const names = (req.names || []).slice(0, req.max_names || 3);
  const variants = product(names, kinds);
  const nullAts = req.null_ats || [null, 0, 1];
  let runs = 0;
  let inconclusive = 0;
  for (const assign of variants) {
    for (const nullAt of nullAts) {
      const ra = await runOne(sa, assign, nullAt);
      const rb = await runOne(sb, assign, nullAt);
      runs++;
      const soft = (o) => o[0] === 'timeout' || o[0] === 'pending' || o[0] === 'log-limit';
      if (soft(ra.outcome) || soft(rb.outcome)) {
        inconclusive++;
        if (inconclusive >= 3) return { id: req.id, verdict: 'skipped', why: 'runs do not terminate within the harness limits', runs };
        continue;
      }
      // implicit string coercions of template substitutions: only their multiset is compared (the property tolerates their
      // timing), and only for runs that complete (an exception may legitimately come before a postponed coercion)
      const completes = ra.outcome[0] === 'return' && rb.outcome[0] === 'return';
      const ja = JSON.stringify([ra.log, completes ? ra.prim : null, ra.outcome]);
      const jb = JSON.stringify([rb.log, completes ? rb.prim : null, rb.outcome]);
      if (ja !== jb) {
        let i = 0;
        while (i < ra.log.length && i < rb.log.length && JSON.stringify(ra.log[i]) === JSON.stringify(rb.log[i])) i++;
        return { id: req.id, verdict: 'differ', runs, variant: { assign, nullAt }, at: i, in_event: ra.log[i] || null, out_event: rb.log[i] || null,
                 in_outcome: ra.outcome, out_outcome: rb.outcome, in_log: ra.log.slice(0, 40), out_log: rb.log.slice(0, 40), in_prim: ra.prim, out_prim: rb.prim };
      }
    }
  }
  return { id: req.id, verdict: 'equal', runs, inconclusive };
}

const rl = readline.createInterface({ input: process.stdin, terminal: false });
let chain = Promise.resolve();
rl.on('line', (line) => {
  if (!line.trim()) return;
  chain = chain.then(async () => {
    let ans;
    try { ans = await handle(JSON.parse(line)); } catch (e) { ans = { verdict: 'error', why: String(e && e.stack || e) }; }
    process.stdout.write(JSON.stringify(ans) + '\n');
  });
});
rl.on('close', () => { chain.then(() => process.exit(0)); });
