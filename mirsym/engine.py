"""Glue: builds a Program from a MIR dump of the current /repo sources and explores paths."""
import hashlib
import os
import pickle
import sys
import time

HERE = os.path.dirname(os.path.abspath(__file__))
sys.path.insert(0, HERE)

import mirparse
import rustdefs
import visit_schema
import interp
import models
from interp import Program, Ctx, Interp, Unsupported, PathEnd, Panic, Infeasible


def load_program(mir_path, srcroot, repo=None, cache_dir=None):
    if repo is None:
        import mirror
        repo = mirror.REPO
    text = open(mir_path).read()
    h = hashlib.sha256(text.encode()).hexdigest()[:16]
    mir = None
    if cache_dir:
        cp = os.path.join(cache_dir, 'mir-%s.pickle' % h)
        if os.path.exists(cp) and os.path.getmtime(cp) > os.path.getmtime(os.path.join(HERE, 'mirparse.py')):
            try:
                mir = pickle.load(open(cp, 'rb'))
            except Exception:
                mir = None
    if mir is None:
        mir = mirparse.parse_mir(text)
        if cache_dir:
            os.makedirs(cache_dir, exist_ok=True)
            tmp = cp + '.%d.tmp' % os.getpid()
            pickle.dump(mir, open(tmp, 'wb'))
            os.replace(tmp, cp)
    defs = rustdefs.load_defs(repo, src=srcroot)
    # log crate enums used by the `debug!` expansion
    defs['Level'] = rustdefs.EnumDef('Level', [(n, [], 'unit') for n in ('Error', 'Warn', 'Info', 'Debug', 'Trace')], [])
    defs['LevelFilter'] = rustdefs.EnumDef('LevelFilter', [(n, [], 'unit') for n in ('Off', 'Error', 'Warn', 'Info', 'Debug', 'Trace')], [])
    schema = visit_schema.load_schema(repo, cache_dir)
    models.install_is_as(defs)
    P = Program(mir, defs, schema, srcroot)
    P.mir_hash = h
    return P


class PathResult:
    __slots__ = ('trace', 'outcome', 'value', 'ctx', 'interp', 'error')

    def __init__(self, trace, outcome, value, ctx, interp_, error=None):
        self.trace = trace
        self.outcome = outcome   # 'ok' | 'panic' | 'infeasible'
        self.value = value
        self.ctx = ctx
        self.interp = interp_
        self.error = error


def explore(program, run_one, grammar_factory, max_paths=None, prefixes=None, on_path=None, timeout_ms=30000, deadline=None):
    """DFS over decision traces.  run_one(I) executes the harness body on interpreter I and returns a value.
    Returns list of PathResult (or streams them to on_path)."""
    work = [list(p) for p in (prefixes or [[]])]
    results = []
    n = 0
    while work:
        if deadline is not None and time.time() > deadline:
            raise Unsupported('exploration deadline exceeded with %d prefixes pending' % len(work))
        prefix = work.pop()
        ctx = Ctx(prefix, timeout_ms)
        g = grammar_factory(ctx) if grammar_factory else None
        I = Interp(program, ctx, g)
        if g is not None:
            g.interp = I
        try:
            val = run_one(I)
            if not ctx.check():
                raise Infeasible('path condition unsatisfiable at path end (grammar constraint)')
            res = PathResult(ctx.trace, 'ok', val, ctx, I)
        except Panic as e:
            res = PathResult(ctx.trace, 'panic', None, ctx, I, e)
        except Infeasible as e:
            res = PathResult(ctx.trace, 'infeasible', None, ctx, I, e)
        # schedule alternatives
        for (k, others, label) in ctx.alts:
            for o in others:
                work.append(ctx.trace[:k] + [o])
        n += 1
        if on_path:
            on_path(res)
        else:
            results.append(res)
        if max_paths and n >= max_paths:
            if work:
                raise Unsupported('path budget %d exhausted with %d prefixes pending' % (max_paths, len(work)))
            break
    return results
