"""Traversal schema of swc_ecma_visit, extracted mechanically from its generated.rs.

For every `impl VisitMutWith<V> for T` / `impl VisitWith<V> for T` the generated
code says (a) which visitor method `visit_with` dispatches to and (b) which
children `visit_children_with` walks, in which order.  The interpreter uses this
instead of a hand-written model of the traversal.
"""
import os
import pickle
import re

from rustdefs import registry_dir, lock_version


def _norm_ty(t):
    t = ' '.join(t.split())
    t = t.replace('swc_common::Span', 'Span').replace('swc_common :: Span', 'Span')
    t = t.replace('swc_atoms::Atom', 'Atom').replace('swc_common::SyntaxContext', 'SyntaxContext')
    t = t.replace('std::boxed::Box', 'Box')
    return t


def parse_generated(path):
    src = open(path).read()
    schema = {'mut': {}, 'ref': {}, 'defaults_mut': {}, 'defaults_ref': {}}
    # --- impls
    for m in re.finditer(r'^impl<V: \?Sized \+ (VisitMut|Visit)> (VisitMutWith|VisitWith)<V> for (.*?) \{\n(.*?)^\}', src, re.S | re.M):
        tr, _, ty, body = m.groups()
        key = 'mut' if tr == 'VisitMut' else 'ref'
        ty = _norm_ty(ty)
        mm = re.search(r'<V as %s>::(\w+)\(visitor, self\)' % tr, body)
        method = mm.group(1)
        # children body
        cm = re.search(r'fn visit(?:_mut)?_children_with\(&(?:mut )?self, visitor: &mut V\) \{\n(.*)\n    \}', body, re.S)
        cbody = cm.group(1)
        entry = {'method': method, 'type': ty}
        call_re = re.compile(r'<(.*?) as (?:VisitMutWith|VisitWith)<V>>::visit(?:_mut)?_with\(\s*(\w+)\s*,\s*visitor\s*,?\s*\)', re.S)
        if 'self.iter' in cbody:
            c = call_re.search(cbody)
            entry['kind'] = 'vec'
            entry['elem'] = _norm_ty(c.group(1))
        elif re.search(r'^\s*match self \{', cbody):
            arms = []
            # split arms: pattern => body
            inner = cbody[cbody.index('{') + 1:cbody.rindex('}')]
            pos = 0
            arm_re = re.compile(r'\s*([A-Za-z_][\w:]*)\s*(\{[^{}]*\}|\([^()]*\))?\s*=>\s*', re.S)
            while True:
                am = arm_re.match(inner, pos)
                if not am:
                    break
                pat_name, pat_fields = am.group(1), am.group(2)
                i = am.end()
                if inner[i] == '{':
                    depth = 0
                    j = i
                    while True:
                        if inner[j] == '{':
                            depth += 1
                        elif inner[j] == '}':
                            depth -= 1
                            if depth == 0:
                                break
                        j += 1
                    abody = inner[i:j + 1]
                    pos = j + 1
                else:
                    j = inner.index('\n', i)
                    abody = inner[i:j]
                    pos = j
                if pos < len(inner) and inner[pos:pos + 1] == ',':
                    pos += 1
                # bindings: var -> field name
                binds = {}
                if pat_fields:
                    pf = pat_fields[1:-1]
                    for b in pf.split(','):
                        b = b.strip()
                        if not b or b == '..':
                            continue
                        if ':' in b:
                            f, v = [x.strip() for x in b.split(':')]
                            binds[v] = f
                        else:
                            binds[b] = b
                    if pat_fields.startswith('('):
                        # Some(inner)
                        binds = {pf.strip(): '0'}
                calls = [(binds.get(v, v), _norm_ty(t)) for t, v in call_re.findall(abody)]
                arms.append((pat_name, calls))
            entry['kind'] = 'match'
            entry['arms'] = arms
        else:
            entry['kind'] = 'leaf'
        schema[key][ty] = entry
    # --- trait defaults: method -> type whose children are visited
    for tr, key, w in (('VisitMut', 'defaults_mut', 'VisitMutWith'), ('Visit', 'defaults_ref', 'VisitWith')):
        tm = re.search(r'^pub trait %s \{\n(.*?)^\}' % tr, src, re.S | re.M)
        tbody = tm.group(1)
        for fm in re.finditer(r'fn (visit(?:_mut)?_\w+)\(&mut self, node: &(?:mut )?(.*?)\) \{\s*<(.*?) as %s<Self>>::visit(?:_mut)?_children_with\(node, self\)\s*\}' % w, tbody, re.S):
            schema[key][fm.group(1)] = _norm_ty(fm.group(3))
    return schema


def load_schema(repo='/repo', cache_dir=None):
    lock = open(os.path.join(repo, 'Cargo.lock')).read()
    ver = lock_version(lock, 'swc_ecma_visit')
    path = os.path.join(registry_dir('swc_ecma_visit-' + ver), 'src', 'generated.rs')
    if cache_dir:
        cp = os.path.join(cache_dir, 'visit_schema-%s.pickle' % ver)
        if os.path.exists(cp) and os.path.getmtime(cp) > os.path.getmtime(__file__):
            try:
                return pickle.load(open(cp, 'rb'))
            except Exception:
                pass
    s = parse_generated(path)
    s['source'] = path
    if cache_dir:
        os.makedirs(cache_dir, exist_ok=True)
        tmp = cp + '.%d.tmp' % os.getpid()
        pickle.dump(s, open(tmp, 'wb'))
        os.replace(tmp, cp)
    return s


if __name__ == '__main__':
    import time
    t = time.time()
    s = load_schema()
    print('%.1fs' % (time.time() - t), len(s['mut']), len(s['ref']), len(s['defaults_mut']), len(s['defaults_ref']))
    for ty in ('BinExpr', 'Expr', 'Vec<ExprOrSpread>', 'Option<Box<Expr>>', 'ExprOrSpread', 'IfStmt', 'Box<Expr>', 'MemberProp', 'Ident', 'Span', 'Stmt', 'ArrowExpr', 'BlockStmtOrExpr'):
        print(ty, s['mut'].get(ty))
    print(s['defaults_mut']['visit_mut_expr'], s['defaults_ref']['visit_lit'])
