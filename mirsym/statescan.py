"""Static part of C16: state that outlives a rewrite call.

On the MIR call graph of the repository crate (callees resolved exactly like the interpreter does): (1) every `static`
item and whether any function reachable from the per-call entry points (rewrite_js, print_js) mentions it;
(2) whether a source of randomness (rnd_string / fastrand) is reachable from the per-call entry points -- it must only
be reachable from configuration construction (RewriterConfig::to_config).
"""
import re

from interp import parse_callee, type_head


def callees(P, body):
    out = set()
    for _bb, (_st, term) in body.blocks.items():
        if term[0] != 'call' or term[2][0] != 'path':
            continue
        info = parse_callee(term[2][1])
        if info['kind'] == 'trait':
            sh = type_head(info['self'])
            th = type_head(info['trait']) if info['trait'] else None
            m = info['method']
            if th in ('VisitMutWith', 'VisitWith'):
                # traversal through swc_ecma_visit: every visitor callback of the visitor type may be called back
                mm = re.match(r'^Visit(?:Mut)?With<(.*)>$', info['trait'].split('::')[-1] if '<' not in info['trait'].split('::')[-1] else info['trait'][info['trait'].index('Visit'):])
                vh = type_head(mm.group(1)) if mm else None
                for (ty, tr, _m), bb in P.impls.items():
                    if ty == vh and tr in ('VisitMut', 'Visit'):
                        out.add(bb.name)
                continue
            b = P.impls.get((sh, th, m))
            if b is not None:
                out.add(b.name)
                continue
            # generic / dyn receiver: every implementation of the trait method + the trait default
            for (ty, tr, mm), bb in P.impls.items():
                if tr == th and mm == m and (len(sh) <= 2 or sh.startswith('dyn ') or sh.startswith('impl ') or sh == 'Self'):
                    out.add(bb.name)
            d = P.trait_defaults.get((th, m))
            if d is not None:
                out.add(d.name)
        else:
            segs = info['segs']
            b = P.impls.get((segs[-2], None, segs[-1])) if len(segs) >= 2 else None
            if b is None:
                b = P.find_fn_by_path(segs)
            if b is None and len(segs) >= 2:
                b = P.trait_defaults.get((segs[-2], segs[-1]))
            if b is not None:
                out.add(b.name)
    return out


def scan(P, mir_text, entries=('rewrite_js', 'print_js')):
    fns = P.fns
    statics = re.findall(r'^static (?:mut )?([A-Za-z_0-9:]+): (.*?) = ', mir_text, re.M)
    # thread_local! statics: rustc prints the key as a const `NAME` and the slot as `&/*tls*/ NAME::{constant#0}::..`
    for tl in sorted(set(re.findall(r'&/\*tls\*/ ([A-Za-z_0-9:]+?)::\{constant#\d+\}', mir_text))):
        statics.append((tl.split('::')[-1], 'thread_local'))
    text_of = {}
    cur = None
    for line in mir_text.split('\n'):
        m = re.match(r'^fn (.*?)\(_?\d*', line)
        if line.startswith('fn '):
            cur = line[3:].split('(')[0] if '<impl at' not in line else None
            if cur is None:
                # names with '<impl at ..>' contain parentheses-free text up to the argument list
                mm = re.match(r'^fn (.*?)\(_1|^fn (.*?)\(\)', line)
                cur = (mm.group(1) or mm.group(2)) if mm else None
            text_of.setdefault(cur, [])
            continue
        if line.startswith(('const ', 'static ')):
            # promoted constants belong to the function they were lifted out of
            pm = re.match(r'^const (.*)::promoted\[\d+\]: ', line)
            cur = pm.group(1) if pm else None
            if cur is not None:
                text_of.setdefault(cur, [])
        if cur is not None:
            text_of[cur].append(line)
    reach = set()
    work = [n for n in fns if n in entries] + [b.name for (ty, tr, m), b in P.impls.items() if tr == 'Drop']
    while work:
        f = work.pop()
        if f in reach or f not in fns:
            continue
        reach.add(f)
        for c in callees(P, fns[f]):
            if c not in reach:
                work.append(c)
        for n in fns:
            if n.startswith(f + '::{closure') and n not in reach:
                work.append(n)
    findings = []
    for sname, sty in statics:
        users = [f for f in reach if any(sname in l for l in text_of.get(f, []))]
        if users:
            findings.append({'kind': 'static-reachable-from-rewrite', 'item': sname, 'type': sty, 'functions': sorted(users)[:5]})
    rnd = [f for f in reach if f.split('::')[-1] == 'rnd_string' or any('fastrand::' in l for l in text_of.get(f, []))]
    if rnd:
        findings.append({'kind': 'randomness-reachable-from-rewrite', 'functions': sorted(rnd)[:5]})
    # configuration types must not have interior mutability: rewrite_js only gets `&Config`, so any state surviving a call
    # would have to live behind Cell/RefCell/Mutex/Atomic/OnceCell/Lazy fields of Config or of what it contains
    cfg_types = ['Config', 'CsiMethods', 'CsiMethod', 'TelemetryVerbosity']
    seen_t = set()
    work_t = list(cfg_types)
    while work_t:
        t = work_t.pop()
        if t in seen_t:
            continue
        seen_t.add(t)
        d = P.defs.get(t)
        if d is None or getattr(d, 'file', None) is None:
            continue
        fields = d.fields if not hasattr(d, 'variants') else [f for v in d.variants for f in v[1]]
        for fname, fty in fields:
            if re.search(r'\b(Cell|RefCell|Mutex|RwLock|Atomic\w*|OnceCell|OnceLock|Lazy|LazyLock|UnsafeCell)\b', fty):
                findings.append({'kind': 'interior-mutability-in-configuration', 'item': '%s.%s: %s' % (t, fname, fty)})
            for m in re.findall(r'[A-Z]\w+', fty):
                if m in P.defs and getattr(P.defs[m], 'file', None) is not None:
                    work_t.append(m)
    return {'statics': statics, 'reachable_functions': len(reach), 'total_functions': len(fns), 'findings': findings, 'reachable': sorted(reach), 'configuration_types_scanned': sorted(seen_t)}


if __name__ == '__main__':
    import sys
    import json
    import engine
    import mirror
    b = mirror.build(need_replay=False)
    P = engine.load_program(b['mir'], b['src'], cache_dir=b['dir'])
    r = scan(P, open(b['mir']).read())
    r['reachable'] = r['reachable'][:12]
    print(json.dumps(r, indent=1))
