"""Reads struct / enum definitions (field order, variant order) from Rust source.

MIR addresses fields and variants by *index*; the pretty printer shows
aggregate construction by *name*.  Both directions are needed, plus field
types to build lazily-initialised symbolic AST nodes.  Sources read:
swc_ecma_ast, swc_common (registry copies at the versions pinned in
/repo/Cargo.lock) and /repo/src itself.
"""
import glob
import os
import re


def strip_comments(src):
    out = []
    i = 0
    n = len(src)
    while i < n:
        c = src[i]
        if c == '/' and i + 1 < n and src[i + 1] == '/':
            j = src.find('\n', i)
            if j == -1:
                break
            i = j
            continue
        if c == '/' and i + 1 < n and src[i + 1] == '*':
            j = src.find('*/', i + 2)
            i = j + 2 if j != -1 else n
            continue
        if c == '"':
            j = i + 1
            while j < n:
                if src[j] == '\\':
                    j += 2
                    continue
                if src[j] == '"':
                    break
                j += 1
            out.append('""')
            i = j + 1
            continue
        out.append(c)
        i += 1
    return ''.join(out)


def strip_attrs(s):
    # remove #[...] attributes (balanced)
    out = []
    i = 0
    n = len(s)
    while i < n:
        if s[i] == '#' and i + 1 < n and (s[i + 1] == '[' or (s[i + 1] == '!' and i + 2 < n and s[i + 2] == '[')):
            j = s.index('[', i)
            depth = 0
            while j < n:
                if s[j] == '[':
                    depth += 1
                elif s[j] == ']':
                    depth -= 1
                    if depth == 0:
                        break
                j += 1
            i = j + 1
            continue
        out.append(s[i])
        i += 1
    return ''.join(out)


def match_brace(s, i, o='{', c='}'):
    depth = 0
    while i < len(s):
        if s[i] == o:
            depth += 1
        elif s[i] == c:
            depth -= 1
            if depth == 0:
                return i
        i += 1
    raise ValueError('unbalanced')


def split_top(s, sep=','):
    out = []
    depth = 0
    cur = []
    for i, ch in enumerate(s):
        if ch in '([{<':
            depth += 1
        elif ch in ')]}':
            depth -= 1
        elif ch == '>' and (i == 0 or s[i - 1] != '-'):
            depth -= 1
        if ch == sep and depth == 0:
            out.append(''.join(cur).strip())
            cur = []
        else:
            cur.append(ch)
    t = ''.join(cur).strip()
    if t:
        out.append(t)
    return out


class StructDef:
    def __init__(self, name, fields, tuple_like, generics):
        self.name = name
        self.fields = fields  # list of (name, type)
        self.tuple_like = tuple_like
        self.generics = generics

    def index(self, fname):
        for i, (n, _) in enumerate(self.fields):
            if n == fname:
                return i
        raise KeyError('%s.%s' % (self.name, fname))


class EnumDef:
    def __init__(self, name, variants, generics):
        self.name = name
        self.variants = variants  # list of (name, fields[(fname|None, type)], kind: unit|tuple|struct)
        self.generics = generics

    def vindex(self, vname):
        for i, v in enumerate(self.variants):
            if v[0] == vname:
                return i
        raise KeyError('%s::%s' % (self.name, vname))


def parse_fields(body):
    fields = []
    for part in split_top(body):
        part = re.sub(r'^\s*pub(\([^)]*\))?\s+', '', part.strip())
        if not part:
            continue
        m = re.match(r'^(r#)?(\w+)\s*:\s*(.*)$', part, re.S)
        if not m:
            continue
        fields.append((m.group(2), ' '.join(m.group(3).split())))
    return fields


def parse_tuple_fields(body):
    fields = []
    for i, part in enumerate(split_top(body)):
        part = re.sub(r'^\s*pub(\([^)]*\))?\s+', '', part.strip())
        if part:
            fields.append((str(i), ' '.join(part.split())))
    return fields


def parse_source(src, defs):
    s = strip_attrs(strip_comments(src))
    for m in re.finditer(r'\b(struct|enum)\s+(\w+)\s*(<[^>{(;]*>)?\s*(where[^{;(]*)?([{(;])', s):
        kind, name, generics, _, opener = m.groups()
        generics = [g.strip().split(':')[0].strip() for g in generics[1:-1].split(',')] if generics else []
        generics = [g for g in generics if g and not g.startswith("'")]
        if kind == 'struct':
            if opener == '{':
                end = match_brace(s, m.end() - 1)
                d = StructDef(name, parse_fields(s[m.end():end]), False, generics)
            elif opener == '(':
                end = match_brace(s, m.end() - 1, '(', ')')
                d = StructDef(name, parse_tuple_fields(s[m.end():end]), True, generics)
            else:
                d = StructDef(name, [], False, generics)
        else:
            if opener != '{':
                continue
            end = match_brace(s, m.end() - 1)
            variants = []
            for part in split_top(s[m.end():end]):
                part = part.strip()
                if not part:
                    continue
                vm = re.match(r'^(\w+)\s*(.*)$', part, re.S)
                vname, rest = vm.group(1), vm.group(2).strip()
                if rest.startswith('('):
                    e = match_brace(rest, 0, '(', ')')
                    variants.append((vname, parse_tuple_fields(rest[1:e]), 'tuple'))
                elif rest.startswith('{'):
                    e = match_brace(rest, 0)
                    variants.append((vname, parse_fields(rest[1:e]), 'struct'))
                else:
                    variants.append((vname, [], 'unit'))
            d = EnumDef(name, variants, generics)
        defs.setdefault(name, d)
    return defs


def registry_dir(crate_dir_name):
    cands = glob.glob(os.path.expanduser('~/.cargo/registry/src/*/' + crate_dir_name))
    if not cands:
        raise FileNotFoundError(crate_dir_name)
    return cands[0]


def lock_version(lock_text, crate):
    m = re.search(r'name = "%s"\nversion = "([^"]+)"' % re.escape(crate), lock_text)
    return m.group(1)


def load_defs(repo='/repo', src=None):
    """src: directory holding the crate sources (default <repo>/src); checks pass the snapshot the MIR was produced from"""
    lock = open(os.path.join(repo, 'Cargo.lock')).read()
    srcdir = src or os.path.join(repo, 'src')
    defs = {}
    # repository first (names are unique enough; lib_wasm::CsiMethod shadows visitor one -> handle separately)
    repo_defs = {}
    for path in sorted(glob.glob(os.path.join(srcdir, '**', '*.rs'), recursive=True)):
        if '/tests/' in path or path.endswith('lib_napi.rs'):
            continue
        mod = {}
        parse_source(open(path).read(), mod)
        rel = os.path.relpath(path, srcdir)
        for k, v in mod.items():
            v.file = rel
            if rel == 'lib_wasm.rs':
                repo_defs['lib_wasm::' + k] = v
                repo_defs.setdefault(k, v)
            else:
                repo_defs[k] = v
    for crate in ('swc_ecma_ast', 'swc_common', 'swc_atoms'):
        d = registry_dir('%s-%s' % (crate, lock_version(lock, crate)))
        for path in sorted(glob.glob(os.path.join(d, 'src', '**', '*.rs'), recursive=True)):
            parse_source(open(path).read(), defs)
    defs.update(repo_defs)
    # std enums used structurally
    defs['Option'] = EnumDef('Option', [('None', [], 'unit'), ('Some', [('0', 'T')], 'tuple')], ['T'])
    defs['Result'] = EnumDef('Result', [('Ok', [('0', 'T')], 'tuple'), ('Err', [('0', 'E')], 'tuple')], ['T', 'E'])
    defs['Cow'] = EnumDef('Cow', [('Borrowed', [('0', '&B')], 'tuple'), ('Owned', [('0', 'O')], 'tuple')], ['B'])
    defs['ControlFlow'] = EnumDef('ControlFlow', [('Continue', [('0', 'C')], 'tuple'), ('Break', [('0', 'B')], 'tuple')], ['B', 'C'])
    defs['Ordering'] = EnumDef('Ordering', [('Less', [], 'unit'), ('Equal', [], 'unit'), ('Greater', [], 'unit')], [])
    return defs


if __name__ == '__main__':
    d = load_defs()
    print(len(d))
    for n in ('Expr', 'BinExpr', 'Span', 'Ident', 'CallExpr', 'Config', 'Status', 'TransformStatus', 'OptChainBase', 'Callee', 'MemberProp', 'Lit', 'Str', 'Stmt', 'IfStmt', 'BlockStmt', 'BytePos', 'SyntaxContext', 'IdentName', 'BinaryOp'):
        x = d[n]
        if isinstance(x, StructDef):
            print('struct', n, x.fields)
        else:
            print('enum', n, [(i, v[0]) for i, v in enumerate(x.variants)][:50])
