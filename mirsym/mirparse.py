"""Parser for rustc's `-Zunpretty=mir` text dump.

The dump is regenerated from /repo's working tree on every run (see mirror.py);
this module turns it into Python structures that interp.py executes.

Grammar covered: function/const/promoted bodies, locals with types, basic
blocks, statements (assign, set-discriminant, storage markers ignored) and all
terminators that occur in MIR after drop elaboration.
"""
import re
import sys

sys.setrecursionlimit(100000)

BINOPS = {
    'Add', 'Sub', 'Mul', 'Div', 'Rem', 'BitXor', 'BitAnd', 'BitOr', 'Shl', 'Shr',
    'Eq', 'Lt', 'Le', 'Ne', 'Ge', 'Gt', 'Offset', 'Cmp',
    'AddWithOverflow', 'SubWithOverflow', 'MulWithOverflow',
    'AddUnchecked', 'SubUnchecked', 'MulUnchecked', 'ShlUnchecked', 'ShrUnchecked',
}
UNOPS = {'Not', 'Neg', 'PtrMetadata'}

OPEN = '([{'
CLOSE = ')]}'


class ParseError(Exception):
    pass


def match_close(s, i):
    """s[i] is an opening bracket; return index of its matching close.
    Skips string literals.  '<' '>' are NOT counted (fn pointer arrows)."""
    depth = 0
    n = len(s)
    j = i
    while j < n:
        c = s[j]
        if c == '"':
            j = skip_string(s, j)
            continue
        if c in OPEN:
            depth += 1
        elif c in CLOSE:
            depth -= 1
            if depth == 0:
                return j
        j += 1
    raise ParseError('unbalanced: ' + s[i:i + 80])


def skip_string(s, i):
    """s[i] == '"'; return index after closing quote."""
    j = i + 1
    n = len(s)
    while j < n:
        if s[j] == '\\':
            j += 2
            continue
        if s[j] == '"':
            return j + 1
        j += 1
    raise ParseError('unterminated string: ' + s[i:i + 80])


def split_top(s, sep=','):
    """Split on sep at bracket depth 0 (counting ()[]{} and <> heuristically)."""
    out = []
    depth = 0
    angle = 0
    cur = []
    i = 0
    n = len(s)
    while i < n:
        c = s[i]
        if c == '"':
            j = skip_string(s, i)
            cur.append(s[i:j])
            i = j
            continue
        if c == "'" and i + 2 < n and (s[i + 2] == "'" or (s[i + 1] == '\\' and s.find("'", i + 2) != -1 and s.find("'", i + 2) - i <= 8)):
            # char literal
            j = s.find("'", i + 2 if s[i + 1] != '\\' else i + 3)
            cur.append(s[i:j + 1])
            i = j + 1
            continue
        if c in OPEN:
            depth += 1
        elif c in CLOSE:
            depth -= 1
        elif c == '<':
            angle += 1
        elif c == '>':
            if i > 0 and s[i - 1] == '-':
                pass
            elif angle > 0:
                angle -= 1
        if c == sep and depth == 0 and angle == 0:
            out.append(''.join(cur).strip())
            cur = []
        else:
            cur.append(c)
        i += 1
    last = ''.join(cur).strip()
    if last or out:
        out.append(last)
    return [x for x in out if x != '']


# ---------------------------------------------------------------- places

class Place:
    __slots__ = ('local', 'proj')

    def __init__(self, local, proj):
        self.local = local
        self.proj = proj  # tuple of ('deref',) ('field', n, ty) ('downcast', name) ('index', local) ('cindex', n, from_end) ('subslice', a, b, from_end)

    def __repr__(self):
        return 'Place(_%d%s)' % (self.local, ''.join('.' + str(p) for p in self.proj))


def parse_place(s, i=0):
    """Parse a place starting at s[i]; returns (Place, next_index)."""
    if s[i] == '_':
        m = re.compile(r'_(\d+)').match(s, i)
        pl = Place(int(m.group(1)), ())
        i = m.end()
    elif s[i] == '(':
        if s[i + 1] == '*':
            inner, j = parse_place(s, i + 2)
            if s[j] != ')':
                raise ParseError('deref close: ' + s[i:])
            pl = Place(inner.local, inner.proj + (('deref',),))
            i = j + 1
        else:
            inner, j = parse_place(s, i + 1)
            if s[j] == '.':
                m = re.compile(r'\.(\d+): ').match(s, j)
                if not m:
                    raise ParseError('field: ' + s[j:j + 40])
                close = match_close(s, i)
                ty = s[m.end():close]
                pl = Place(inner.local, inner.proj + (('field', int(m.group(1)), ty),))
                i = close + 1
            elif s.startswith(' as ', j):
                close = match_close(s, i)
                name = s[j + 4:close]
                pl = Place(inner.local, inner.proj + (('downcast', name),))
                i = close + 1
            else:
                raise ParseError('place paren: ' + s[i:i + 60])
    else:
        raise ParseError('place: ' + s[i:i + 60])
    # index suffixes
    while i < len(s) and s[i] == '[':
        close = match_close(s, i)
        inner = s[i + 1:close]
        m = re.fullmatch(r'_(\d+)', inner)
        if m:
            pl = Place(pl.local, pl.proj + (('index', int(m.group(1))),))
        else:
            m = re.fullmatch(r'(-?)(\d+) of (\d+)', inner)
            if m:
                pl = Place(pl.local, pl.proj + (('cindex', int(m.group(2)), m.group(1) == '-'),))
            else:
                m = re.fullmatch(r'(\d+):(-?)(\d*)', inner) or re.fullmatch(r'(\d+)\.\.(-?)(\d*)', inner)
                if m:
                    pl = Place(pl.local, pl.proj + (('subslice', int(m.group(1)), int(m.group(3) or 0), m.group(2) == '-'),))
                else:
                    raise ParseError('index: ' + inner)
        i = close + 1
    return pl, i


# ---------------------------------------------------------------- operands

def parse_operand(s):
    s = s.strip()
    if s.startswith('no_retag '):
        s = s[9:]
    if s.startswith('copy '):
        pl, j = parse_place(s, 5)
        if j != len(s):
            raise ParseError('operand tail: ' + s)
        return ('copy', pl)
    if s.startswith('move '):
        pl, j = parse_place(s, 5)
        if j != len(s):
            raise ParseError('operand tail: ' + s)
        return ('move', pl)
    if s.startswith('const '):
        return ('const', parse_const(s[6:].strip()))
    # bare function items used as values, e.g. `swc_ecma_ast::Expr::Ident`
    return ('const', ('path', s))


_int_re = re.compile(r'^(-?\d+)_(u8|u16|u32|u64|u128|usize|i8|i16|i32|i64|i128|isize)$')


def unescape_bytes(body):
    out = bytearray()
    i = 0
    while i < len(body):
        c = body[i]
        if c == '\\':
            d = body[i + 1]
            if d == 'x':
                out.append(int(body[i + 2:i + 4], 16))
                i += 4
            elif d == 'n':
                out.append(10); i += 2
            elif d == 't':
                out.append(9); i += 2
            elif d == 'r':
                out.append(13); i += 2
            elif d == '0':
                out.append(0); i += 2
            elif d == 'u':
                close = body.index('}', i)
                out.extend(chr(int(body[i + 3:close], 16)).encode('utf8'))
                i = close + 1
            else:
                out.extend(d.encode('utf8')); i += 2
        else:
            out.extend(c.encode('utf8'))
            i += 1
    return bytes(out)


def parse_const(s):
    m = _int_re.match(s)
    if m:
        return ('int', int(m.group(1)), m.group(2))
    if s == 'true':
        return ('bool', True)
    if s == 'false':
        return ('bool', False)
    if s == '()':
        return ('unit',)
    if s.startswith('"'):
        end = skip_string(s, 0)
        return ('str', unescape_bytes(s[1:end - 1]).decode('utf8', 'replace'))
    if s.startswith('b"'):
        end = skip_string(s, 1)
        return ('bytes', unescape_bytes(s[2:end - 1]))
    if s.startswith("'"):
        body = s[1:s.rindex("'")]
        return ('char', unescape_bytes(body).decode('utf8'))
    m = re.match(r'^(.*)::promoted\[(\d+)\]$', s)
    if m:
        return ('promoted', m.group(1), int(m.group(2)))
    if s.startswith('ZeroSized'):
        return ('zst', s)
    return ('path', s)


# ---------------------------------------------------------------- rvalues

def parse_fields(s):
    """`a: op, b: op` -> list of (name, operand)"""
    out = []
    for part in split_top(s):
        k = part.index(': ')
        out.append((part[:k].strip(), parse_operand(part[k + 2:])))
    return out


def parse_rvalue(s):
    s = s.strip()
    if s.startswith('&/*tls*/ '):
        # address of a thread-local static: state that outlives a call (reported by the static-state scan); executing it is
        # not supported
        return ('tls', s[len('&/*tls*/ '):].strip())
    if s.startswith('&'):
        if s.startswith('&raw const '):
            return ('ref', 'raw', parse_place(s, 11)[0])
        if s.startswith('&raw mut '):
            return ('ref', 'rawmut', parse_place(s, 9)[0])
        if s.startswith('&mut '):
            return ('ref', 'mut', parse_place(s, 5)[0])
        if s.startswith('&fake shallow '):
            return ('ref', 'shared', parse_place(s, 14)[0])
        if s.startswith('&fake '):
            return ('ref', 'shared', parse_place(s, 6)[0])
        return ('ref', 'shared', parse_place(s, 1)[0])
    if s.startswith(('copy ', 'move ', 'const ', 'no_retag ')):
        # maybe a cast
        m = re.search(r' as (.*) \(([A-Za-z]+(?:\(.*\))?)\)$', s)
        if m and not s.startswith('const "'):
            head = s[:m.start()]
            try:
                op = parse_operand(head)
                return ('cast', op, m.group(1), m.group(2))
            except ParseError:
                pass
        return ('use', parse_operand(s))
    m = re.match(r'^([A-Za-z]+)\(', s)
    if m and s.endswith(')'):
        name = m.group(1)
        inner = s[m.end():-1]
        if name == 'discriminant':
            return ('discriminant', parse_place(inner)[0])
        if name == 'Len':
            return ('len', parse_place(inner)[0])
        if name == 'CopyForDeref':
            return ('use', ('copy', parse_place(inner)[0]))
        if name in UNOPS:
            return ('unop', name, parse_operand(inner))
        if name in BINOPS:
            a, b = split_top(inner)
            return ('binop', name, parse_operand(a), parse_operand(b))
        if name == 'ShallowInitBox':
            a, b = split_top(inner)
            return ('use', parse_operand(a))
    if s.startswith('['):
        close = match_close(s, 0)
        inner = s[1:close]
        parts = split_top(inner, ';')
        if len(parts) == 2 and close == len(s) - 1 and not inner.strip().startswith('move _') or (len(parts) == 2 and ';' in inner and ',' not in inner):
            parts2 = split_top(inner, ';')
            if len(parts2) == 2:
                return ('repeat', parse_operand(parts2[0]), parts2[1])
        return ('aggregate', 'array', None, [(None, parse_operand(p)) for p in split_top(inner)])
    if s.startswith('('):
        close = match_close(s, 0)
        if close == len(s) - 1:
            inner = s[1:close]
            return ('aggregate', 'tuple', None, [(None, parse_operand(p)) for p in split_top(inner)])
    if s.startswith('{closure@') or s.startswith('{coroutine@') or s.startswith('{async'):
        close = match_close(s, 0)
        cty = s[:close + 1]
        rest = s[close + 1:].strip()
        fields = []
        if rest.startswith('{'):
            fields = parse_fields(rest[1:match_close(rest, 0)])
        return ('aggregate', 'closure', cty, fields)
    # ADT aggregate:  Path(..) | Path { .. } | Path
    if s.endswith(')'):
        # find the opening paren matching the final ')'
        depth = 0
        for i in range(len(s) - 1, -1, -1):
            c = s[i]
            if c in CLOSE:
                depth += 1
            elif c in OPEN:
                depth -= 1
                if depth == 0:
                    break
        if s[i] == '(' and i > 0:
            path = s[:i]
            inner = s[i + 1:-1]
            return ('aggregate', 'adt', path, [(None, parse_operand(p)) for p in split_top(inner)])
    if s.endswith('}'):
        depth = 0
        for i in range(len(s) - 1, -1, -1):
            c = s[i]
            if c in CLOSE:
                depth += 1
            elif c in OPEN:
                depth -= 1
                if depth == 0:
                    break
        path = s[:i].strip()
        inner = s[i + 1:-1]
        return ('aggregate', 'adt', path, parse_fields(inner))
    return ('aggregate', 'adt', s, [])


# ---------------------------------------------------------------- bodies

class Body:
    __slots__ = ('name', 'kind', 'args', 'ret', 'locals', 'blocks', 'src', 'debug', 'header')

    def __init__(self, name, kind):
        self.name = name
        self.kind = kind  # fn | const | promoted | static
        self.args = []    # list of (local, type)
        self.ret = None
        self.locals = {}  # local -> type string
        self.blocks = {}  # id -> (stmts, term)
        self.debug = {}
        self.header = ''


def parse_targets(s):
    """`[0: bb1, otherwise: bb2]` -> list of (key, bb)"""
    s = s.strip()
    assert s[0] == '[' and s[-1] == ']', s
    out = []
    for part in split_top(s[1:-1]):
        k, v = part.rsplit(': ', 1) if ': ' in part else (None, part)
        out.append((k, v.strip()))
    return out


def bbnum(s):
    s = s.strip()
    if s.startswith('bb'):
        return int(s[2:])
    return None


def parse_unwind_targets(s):
    """`[return: bb1, unwind: bb2]` or `[return: bb1, unwind continue]` or `unwind continue`"""
    s = s.strip()
    ret = None
    m = re.search(r'return: bb(\d+)', s)
    if m:
        ret = int(m.group(1))
    m = re.search(r'success: bb(\d+)', s)
    if m:
        ret = int(m.group(1))
    return ret


def find_call_split(rhs):
    """rhs = CALLEE(ARGS) ; return (callee, args_str). CALLEE may contain parens (fn ptr types)."""
    assert rhs.endswith(')'), rhs
    depth = 0
    for i in range(len(rhs) - 1, -1, -1):
        c = rhs[i]
        if c == '"':
            # walk back over string literal
            j = i - 1
            while j >= 0:
                if rhs[j] == '"' and (j == 0 or rhs[j - 1] != '\\'):
                    break
                j -= 1
            # continue from j (outer loop can't be reassigned in for; emulate)
            # fall back to forward scan below
            return _find_call_split_forward(rhs)
        if c in CLOSE:
            depth += 1
        elif c in OPEN:
            depth -= 1
            if depth == 0:
                return rhs[:i], rhs[i + 1:-1]
    raise ParseError('call split: ' + rhs)


def _find_call_split_forward(rhs):
    # forward scan: record start of the last top-level '(' group
    i = 0
    n = len(rhs)
    last_open = None
    depth = 0
    while i < n:
        c = rhs[i]
        if c == '"':
            i = skip_string(rhs, i)
            continue
        if c in OPEN:
            if depth == 0 and c == '(':
                last_open = i
            depth += 1
        elif c in CLOSE:
            depth -= 1
        i += 1
    return rhs[:last_open], rhs[last_open + 1:-1]


def parse_terminator(line):
    s = line.strip()
    if s.endswith(';'):
        s = s[:-1]
    if s.startswith('goto -> '):
        return ('goto', bbnum(s[8:]))
    if s == 'return':
        return ('return',)
    if s == 'resume' or s.startswith('terminate') or s == 'abort':
        return ('resume',)
    if s == 'unreachable':
        return ('unreachable',)
    if s.startswith('switchInt('):
        close = match_close(s, 9)
        op = parse_operand(s[10:close])
        rest = s[close + 1:].strip()
        assert rest.startswith('-> '), s
        tg = parse_targets(rest[3:])
        targets = []
        otherwise = None
        for k, v in tg:
            if k == 'otherwise':
                otherwise = bbnum(v)
            else:
                k = k.strip()
                m = re.match(r'^(-?\d+)', k)
                targets.append((int(m.group(1)), bbnum(v)))
        return ('switch', op, targets, otherwise)
    if s.startswith('drop('):
        close = match_close(s, 4)
        pl = parse_place(s[5:close])[0]
        ret = parse_unwind_targets(s[close + 1:])
        return ('drop', pl, ret)
    if s.startswith('assert('):
        close = match_close(s, 6)
        inner = s[7:close]
        parts = split_top(inner)
        cond = parts[0]
        expected = True
        if cond.startswith('!'):
            expected = False
            cond = cond[1:]
        msg = parts[1] if len(parts) > 1 else ''
        ret = parse_unwind_targets(s[close + 1:])
        return ('assert', parse_operand(cond), expected, msg, ret)
    if s.startswith('falseEdge -> ') or s.startswith('falseUnwind -> '):
        m = re.search(r'real: bb(\d+)', s)
        return ('goto', int(m.group(1)))
    # call
    m = re.search(r'\) -> (\[return: bb\d+, unwind[^\]]*\]|unwind [a-z()]+|unwind: bb\d+)$', s)
    if m:
        head = s[:m.start() + 1]
        ret = parse_unwind_targets(m.group(1))
        # DEST = CALLEE(ARGS)
        k = head.find(' = ')
        dest = None
        rhs = head
        if k != -1 and (head[0] == '_' or head[0] == '('):
            try:
                dest, j = parse_place(head, 0)
                if head[j:j + 3] == ' = ':
                    rhs = head[j + 3:]
                else:
                    dest = None
            except ParseError:
                dest = None
        callee, args = find_call_split(rhs)
        callee = callee.strip()
        if callee.startswith(('move ', 'copy ')):
            cal = ('op', parse_operand(callee))
        else:
            cal = ('path', callee)
        return ('call', dest, cal, [parse_operand(a) for a in split_top(args)], ret)
    raise ParseError('terminator: ' + s)


def parse_statement(line):
    s = line.strip()
    if s.endswith(';'):
        s = s[:-1]
    if s.startswith(('StorageLive(', 'StorageDead(', 'nop', 'FakeRead(', 'AscribeUserType(', 'Retag(', 'PlaceMention(', 'Coverage', 'ConstEvalCounter', 'Deinit(', 'BackwardIncompatibleDropHint')):
        return None
    if s.startswith('assume(') or s.startswith('Assume('):
        return None
    if s.startswith('discriminant('):
        close = match_close(s, 12)
        pl = parse_place(s[13:close])[0]
        val = s[close + 1:].strip()
        assert val.startswith('= '), s
        return ('setdiscr', pl, int(val[2:]))
    pl, j = parse_place(s, 0)
    if s[j:j + 3] != ' = ':
        raise ParseError('statement: ' + s)
    return ('assign', pl, parse_rvalue(s[j + 3:]))


_term_starts = ('goto -> ', 'return;', 'resume;', 'unreachable;', 'switchInt(', 'drop(', 'assert(', 'falseEdge', 'falseUnwind', 'terminate', 'abort;')


def is_terminator(s):
    if s.startswith(_term_starts):
        return True
    if re.search(r'\) -> (\[return: bb\d+, unwind[^\]]*\]|unwind [a-z()]+|unwind: bb\d+);$', s):
        return True
    return False


def parse_header(line):
    """`fn NAME(ARGS) -> RET {` ; returns (name, [(local, ty)], ret)"""
    assert line.startswith('fn '), line
    s = line[3:].rstrip()
    assert s.endswith('{'), line
    s = s[:-1].rstrip()
    # name extends to the '(' that starts the arg list: the first '(' at
    # depth 0 that is followed by '_1: ' or ')' -- names contain '<impl at ..>' and '{closure#0}'
    i = 0
    n = len(s)
    depth_angle = 0
    while i < n:
        c = s[i]
        if c == '<':
            depth_angle += 1
        elif c == '>' and s[i - 1] != '-':
            depth_angle -= 1
        elif c == '(' and depth_angle == 0:
            break
        i += 1
    name = s[:i]
    close = match_close(s, i)
    args = []
    for part in split_top(s[i + 1:close]):
        m = re.match(r'^_(\d+): (.*)$', part, re.S)
        args.append((int(m.group(1)), m.group(2)))
    rest = s[close + 1:].strip()
    ret = rest[3:].strip() if rest.startswith('->') else '()'
    return name, args, ret


def parse_mir(text):
    """Returns dict: fns (name -> Body), consts (name -> Body or ('value', const)), promoteds ((owner, n) -> Body)"""
    fns = {}
    consts = {}
    promoteds = {}
    lines = text.split('\n')
    i = 0
    n = len(lines)
    while i < n:
        line = lines[i]
        if line.startswith('fn '):
            # header may (rarely) span lines; join until '{' at end
            hdr = line
            while not hdr.rstrip().endswith('{'):
                i += 1
                hdr += ' ' + lines[i].strip()
            name, args, ret = parse_header(hdr)
            body = Body(name, 'fn')
            body.header = hdr
            body.args = args
            body.ret = ret
            for l, t in args:
                body.locals[l] = t
            i = parse_body(lines, i + 1, body)
            if name in fns:
                # generic duplicates (should not happen); keep first
                pass
            else:
                fns[name] = body
            continue
        m = re.match(r'^(const|static|static mut) (.*::promoted\[\d+\]): (.*) = (\{)$', line) or \
            re.match(r'^(const|static|static mut) ([^:]*(?:::[^:]+)*?): (.*?) = (.*)$', line)      # (type up to the FIRST ` = `: the value may be a string holding ` = `)
        if m:
            name = m.group(2)
            ty = m.group(3)
            rhs = m.group(4).strip()
            if rhs == '{':
                pm = re.match(r'^(.*)::promoted\[(\d+)\]$', name)
                body = Body(name, 'promoted' if pm else 'const')
                body.ret = ty
                i = parse_body(lines, i + 1, body)
                if pm:
                    promoteds[(pm.group(1), int(pm.group(2)))] = body
                else:
                    consts[name] = body
                continue
            else:
                if rhs.endswith(';'):
                    rhs = rhs[:-1]
                consts[name] = ('value', parse_operand(rhs), ty)
        i += 1
    return {'fns': fns, 'consts': consts, 'promoteds': promoteds}


_let_re = re.compile(r'^\s*let (?:mut )?_(\d+): (.*);$')
_bb_re = re.compile(r'^\s*bb(\d+)(?: \(cleanup\))?: \{$')
_dbg_re = re.compile(r'^\s*debug (\S+) => (.*);$')


def parse_body(lines, i, body):
    n = len(lines)
    cur = None
    stmts = None
    while i < n:
        line = lines[i]
        if line == '}':
            return i + 1
        m = _let_re.match(line)
        if m and cur is None:
            body.locals[int(m.group(1))] = m.group(2)
            i += 1
            continue
        m = _bb_re.match(line)
        if m:
            cur = int(m.group(1))
            stmts = []
            i += 1
            continue
        if cur is not None:
            s = line.strip()
            if s == '}':
                cur = None
                i += 1
                continue
            if not s or s.startswith('//'):
                i += 1
                continue
            # statements can span multiple lines only for strings with newlines (escaped) -> no
            if is_terminator(s):
                body.blocks[cur] = (stmts, parse_terminator(s))
            else:
                st = parse_statement(s)
                if st is not None:
                    stmts.append(st)
            i += 1
            continue
        m = _dbg_re.match(line)
        if m:
            body.debug[m.group(1)] = m.group(2)
        i += 1
    return i


if __name__ == '__main__':
    import time
    t = time.time()
    prog = parse_mir(open(sys.argv[1]).read())
    print(len(prog['fns']), 'fns', len(prog['consts']), 'consts', len(prog['promoteds']), 'promoteds', '%.2fs' % (time.time() - t))
    if len(sys.argv) > 2:
        b = prog['fns'][sys.argv[2]]
        for k, (st, tm) in sorted(b.blocks.items()):
            print('bb', k)
            for s in st:
                print('   ', s)
            print('   T', tm)
