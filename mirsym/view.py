"""Read-only 'views' of AST values: plain dict/list structures with symbolic leaves, for the property oracles.

struct  -> {'_t': 'BinExpr', field: view, ...}
enum    -> {'_t': 'Expr', '_v': 'Bin', '_0': view | named fields}
Option  -> None | view ; Vec -> [views] ; Box -> view ; Atom/String -> str | z3 String ; lazy -> {'_lazy': uid, '_t': ty}
field-less enum -> {'_t': 'BinaryOp', '_d': int | z3 Int}
"""
import z3

from values import Adt, Tup, VecV, StrV, Ptr, load


def to_view(v, defs):
    while isinstance(v, Ptr):
        v = load(v)
    if isinstance(v, StrV):
        return v.s
    if isinstance(v, (int, bool, float)) or isinstance(v, z3.ExprRef):
        return v
    if isinstance(v, VecV):
        if v.items is None:
            return {'_lazy': v.lazy.uid, '_t': 'Vec'}
        return [to_view(x, defs) for x in v.items]
    if isinstance(v, Tup):
        return tuple(to_view(x, defs) for x in v.fields)
    if isinstance(v, Adt):
        if v.lazy is not None:
            return {'_lazy': v.lazy.uid, '_t': v.lazy.ty}
        if v.ty == 'Option':
            return None if v.variant == 0 else to_view(v.fields[0], defs)
        d = defs.get(v.ty)
        if d is None:
            return {'_t': v.ty, '_fields': [to_view(x, defs) for x in v.fields]}
        if hasattr(d, 'variants'):
            if all(x[2] == 'unit' for x in d.variants):
                return {'_t': v.ty, '_d': v.variant}
            vd = d.variants[v.variant]
            out = {'_t': v.ty, '_v': vd[0]}
            for (fn, _ft), fv in zip(vd[1], v.fields):
                out['_0' if fn == '0' else fn] = to_view(fv, defs)
            return out
        out = {'_t': v.ty}
        for (fn, _ft), fv in zip(d.fields, v.fields):
            out[fn] = to_view(fv, defs)
        if v.meta and 'uid' in v.meta:
            out['_uid'] = v.meta['uid']
        return out
    return v


def is_lazy(x):
    return isinstance(x, dict) and '_lazy' in x


def kind(e):
    """Expr view -> variant name ('?' for lazy)"""
    if is_lazy(e):
        return '?'
    return e.get('_v')


def payload(e):
    return e['_0']


def span_tuple(sp):
    return (sp['lo']['0'] if isinstance(sp['lo'], dict) and '0' in sp['lo'] else sp['lo']['_fields'][0], sp['hi']['0'] if isinstance(sp['hi'], dict) and '0' in sp['hi'] else sp['hi']['_fields'][0])
