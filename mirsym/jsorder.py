"""Symbolic evaluation order semantics for the JavaScript fragment the rewriter touches (C01).

Both the input expression and the rewritten expression are evaluated by the same small evaluator into
  * a trace of externally visible events (calls, property reads/writes, assignments to user variables,
    operator coercions, spread iterations, awaits), each producing a fresh result value named by its
    position in the trace,
  * a separate, ordered list of template ToString coercions (tolerated to move relative to other events),
  * the resulting value.
Values are uninterpreted terms, so equality of traces and values means equal behaviour for *all* run-time
values and all behaviours of the free functions/objects.  Branching constructs (?:, &&, ||, ??, ?.) consult a
decision oracle shared by both evaluations; every combination of decisions is explored.

Hooks `_ddiast.h(r, ...)` are the identity on their first argument; injected temporaries are SSA bindings.
Tolerated differences (from the property statement): reading a static `X.prototype.m` path has no event;
ToString of template substitutions is kept on its own channel.  Assumed: `f.call(t, ..)` / `f.apply(t, arr)`
invoke f (Function.prototype.call/apply are not overridden).
"""
import z3

from view import is_lazy, kind, payload
from oracle import is_temp_ident, temp_name, hook_parts, leaf_eq, conj, neg, ceq, span_is_dummy

BINOPS = ['==', '!=', '===', '!==', '<', '<=', '>', '>=', '<<', '>>', '>>>', '+', '-', '*', '/', '%', '|', '^', '&', '||', '&&', 'in', 'instanceof', '**', '??']
LOGICAL = {19: 'or', 20: 'and', 24: 'nullish'}
ASSIGN_TO_BIN = {1: 11, 2: 12, 3: 13, 4: 14, 5: 15, 6: 8, 7: 9, 8: 10, 9: 16, 10: 17, 11: 18, 12: 23}
ASSIGN_LOGICAL = {13: 'and', 14: 'or', 15: 'nullish'}


class NeedDecision(Exception):
    def __init__(self, key):
        self.key = key


class Unsupported(Exception):
    pass


SHORT = ('short',)


class Evaluator:
    def __init__(self, decisions):
        self.trace = []
        self.tostr = []
        self.env = {}
        self.decisions = decisions      # list of (key, bool) in the order they were first asked
        self.dmap = {repr(k): v for k, v in decisions}
        self.zconds = []
        self.zseen = set()

    # ---------------------------------------------------------------- helpers
    def event(self, *ev):
        self.trace.append(ev)
        return ('r', len(self.trace) - 1)

    def decide(self, key, zcond=None):
        """oracle decision; `zcond` (a z3 Bool) ties decisions about symbolic leaves (operators, names, flags) to the solver"""
        if isinstance(key, tuple) and key and key[0] == 'nullish' and isinstance(key[1], tuple) and key[1] and key[1][0] in ('lit', 'arr', 'obj', 'closure', 'tpl', 'pure'):
            return key[1][:2] in (('lit', 'undefined'), ('lit', 'null'))
        r = self.dmap.get(repr(key))
        if r is None:
            raise NeedDecision(key)
        if zcond is not None and repr(key) not in self.zseen:
            self.zseen.add(repr(key))
            self.zconds.append(zcond if r else neg(zcond))
        return r

    def state(self):
        return len(self.trace)

    # ---------------------------------------------------------------- expressions
    def ev(self, e):
        if is_lazy(e):
            # an arbitrary expression the rewriter never looked into: one opaque effect, identified by its uid
            return self.event('opaque', e['_lazy'])
        k = kind(e)
        m = getattr(self, 'e_' + k, None)
        if m is None:
            raise Unsupported('jsorder: Expr::%s' % k)
        return m(payload(e), e)

    def e_Lit(self, p, e):
        if is_lazy(p):
            return ('lit', p['_lazy'])
        x = p['_0']
        v = p.get('_v')
        if v == 'Str':
            return ('lit', 'str', x['value'])
        if v == 'Num':
            return ('lit', 'num', x['value'])
        if v == 'Null':
            return ('lit', 'null')
        if v == 'Bool':
            return ('lit', 'bool', x['value'])
        return ('lit', v, str(x.get('span')))

    def e_This(self, p, e):
        # `this` is fixed for an activation except in a derived-class constructor, where super() initialises it (a read before
        # that throws): its value is indexed by the number of super() calls evaluated so far
        return ('this', sum(1 for ev in self.trace if ev and ev[0] == 'super'))

    def e_Ident(self, p, e):
        if is_temp_ident(e):
            n = temp_name(e)
            if n not in self.env:
                return ('unassigned-temp', n)
            return self.env[n]
        if ceq(p['sym'], 'undefined'):
            return ('lit', 'undefined')
        return ('var', p['sym'], self.state())

    def e_Paren(self, p, e):
        return self.ev(p['expr'])

    def e_Seq(self, p, e):
        v = ('lit', 'undefined')
        for x in p['exprs']:
            v = self.ev(x)
        return v

    def static_proto_path(self, e):
        """`X.prototype.m` / `X.a.b` rooted at a plain identifier with static property names containing `prototype`"""
        parts = []
        cur = e
        while kind(cur) == 'Member':
            pr = payload(cur)['prop']
            if is_lazy(pr) or pr.get('_v') != 'Ident':
                return None
            parts.append(pr['_0']['sym'])
            cur = payload(cur)['obj']
        if kind(cur) != 'Ident' or is_temp_ident(cur):
            return None
        isproto = False
        for x in parts[1:]:      # `X.prototype.m`: prototype must be followed by the method name
            c = leaf_eq(x, 'prototype')
            if c is True or (c is not False and self.decide(('is-prototype', str(x)), c)):
                isproto = True
                break
        if not isproto:
            return None
        return ('static', payload(cur)['sym']) + tuple(reversed(parts))

    def prop_value(self, pr):
        if is_lazy(pr):
            return ('prop', pr['_lazy'])
        if pr.get('_v') == 'Ident':
            return ('name', pr['_0']['sym'])
        if pr.get('_v') == 'Computed':
            return self.ev(pr['_0']['expr'])
        return ('private', pr['_0'].get('name') if isinstance(pr['_0'], dict) else None)

    def e_Member(self, p, e):
        sp = self.static_proto_path(e)
        if sp is not None:
            return sp
        ov = self.ev(p['obj'])
        pv = self.prop_value(p['prop'])
        return self.event('get', ov, pv)

    def args(self, args):
        out = []
        if is_lazy(args):
            return [self.event('opaque-args', args['_lazy'])]
        for a in args:
            v = self.ev(a['expr'])
            if a['spread'] is not None:
                if isinstance(v, tuple) and v and v[0] == 'arr':
                    # spreading a freshly built array literal re-yields its elements (no user-observable iteration)
                    out.extend(v[1:])
                    continue
                if self.pure_literal(v):
                    out.append(('spread', v))       # iterating a literal is not observable
                    continue
                v = self.event('spread', v)
                out.append(('spread', v))
            else:
                out.append(v)
        return out

    def call_parts(self, callee):
        """-> (function value, this value, reflective: None|'call'|'apply')"""
        if kind(callee) == 'Member':
            m = payload(callee)
            pr = m['prop']
            if not is_lazy(pr) and pr.get('_v') == 'Ident':
                refl = None
                c1 = leaf_eq(pr['_0']['sym'], 'call')
                c2 = leaf_eq(pr['_0']['sym'], 'apply')
                if c1 is True:
                    refl = 'call'
                elif c2 is True:
                    refl = 'apply'
                elif c1 is not False or c2 is not False:
                    # symbolic property name that may be call/apply: decide through the oracle so that both programs agree
                    if self.decide(('is-call', str(pr['_0']['sym'])), c1):
                        refl = 'call'
                    elif self.decide(('is-apply', str(pr['_0']['sym'])), c2):
                        refl = 'apply'
                if refl:
                    fv = self.ev(m['obj'])
                    if not (isinstance(fv, tuple) and fv and fv[0] == 'static'):
                        # reading `.call` / `.apply` off the function value is the point at which a missing (nullish) function
                        # raises its TypeError: before the arguments are evaluated.  (A plain call checks callability at the call
                        # itself, i.e. after the arguments; e_Call drops the marker when nothing happens in between.)
                        self.event('reflect-get', fv)
                    return fv, None, refl
            sp = self.static_proto_path(callee)
            if sp is not None:
                return sp, ('static-this', sp[:-1]), None
            ov = self.ev(m['obj'])
            pv = self.prop_value(pr)
            fv = self.event('get', ov, pv)
            return fv, ov, None
        if kind(callee) == 'Paren':
            return self.call_parts(payload(callee)['expr'])
        fv = self.ev(callee)
        return fv, ('lit', 'undefined'), None

    def do_call(self, fv, thisv, refl, argv):
        if refl == 'call':
            if not argv:
                return self.event('call', fv, ('lit', 'undefined'))
            return self.event('call', fv, argv[0], *argv[1:])
        if refl == 'apply':
            if not argv:
                return self.event('call', fv, ('lit', 'undefined'))
            rest = argv[1:]
            return self.event('call', fv, argv[0], ('apply-list',) + tuple(rest))
        return self.event('call', fv, thisv, *argv)

    def e_Call(self, p, e):
        hp = hook_parts(e)
        if hp is not None:
            _name, hargs = hp
            if is_lazy(hargs) or not hargs:
                raise Unsupported('hook without arguments')
            r = self.ev(hargs[0]['expr'])
            for a in hargs[1:]:
                self.ev(a['expr'])      # operand arguments: must not add events (they would show up in the trace)
            return r
        c = p['callee']
        if is_lazy(c):
            return self.event('opaque', c['_lazy'])
        if c.get('_v') == 'Import':
            argv = self.args(p['args'])
            return self.event('import', *argv)
        if c.get('_v') == 'Super':
            argv = self.args(p['args'])
            return self.event('super', *argv)
        fv, thisv, refl = self.call_parts(c['_0'])
        mark = len(self.trace) - 1 if (refl and self.trace and self.trace[-1][0] == 'reflect-get') else None
        argv = self.args(p['args'])
        if mark is not None and len(self.trace) - 1 == mark:
            self.trace.pop()        # no effect between reading `.call` and the call: indistinguishable from a plain call
        return self.do_call(fv, thisv, refl, argv)

    def e_New(self, p, e):
        fv = self.ev(p['callee'])
        argv = self.args(p['args']) if p['args'] is not None else []
        return self.event('new', fv, *argv)

    def truthy(self, v):
        if isinstance(v, tuple) and v and v[0] == 'nullishp':
            return self.decide(('nullish', v[1]))
        if isinstance(v, tuple) and v and v[0] == 'not-nullishp':
            return not self.decide(('nullish', v[1]))
        return self.decide(('truthy', v))

    def e_Bin(self, p, e):
        op = p['op']['_d']
        if not isinstance(op, int):
            # symbolic operator: treat as one uninterpreted strict operator unless it may be short-circuiting
            # a symbolic operator is evaluated as a strict (non short-circuit) operator; the comparison is then only claimed
            # for non-logical instantiations (logical operators are covered with concrete operators in a dedicated scenario)
            may_logical = [i for i in LOGICAL if leaf_eq(op, i) is not False]
            if may_logical and ('nl', str(op)) not in self.zseen:
                self.zseen.add(('nl', str(op)))
                self.zconds.append(z3.And([op != i for i in may_logical]))
            lv = self.ev(p['left'])
            rv = self.ev(p['right'])
            if self.pure_literal(lv) and self.pure_literal(rv):
                # `x in <primitive>` / `x instanceof <primitive>` throw a TypeError: that is an effect with a position
                if not self.decide(('in-or-instanceof', str(op)), z3.Or(op == 21, op == 22)):
                    return ('pure', op, lv, rv)
            return self.event('binop', op, lv, rv)
        if op in LOGICAL:
            return self.logical(LOGICAL[op], p)
        # `t == null` on an injected temporary / any value: no coercion takes place for null/undefined comparison
        if op in (0, 1) and kind(p['right']) == 'Lit' and not is_lazy(payload(p['right'])) and payload(p['right']).get('_v') == 'Null' and is_temp_ident(p['left']):
            lv = self.ev(p['left'])
            return ('nullishp', lv) if op == 0 else ('not-nullishp', lv)
        lv = self.ev(p['left'])
        rv = self.ev(p['right'])
        if self.pure_literal(lv) and self.pure_literal(rv) and op not in (21, 22):
            # operators on literals are side-effect free: a value, not an event -- except `in` / `instanceof`, which throw a
            # TypeError on a primitive right operand (an effect with a position)
            return ('pure', op, lv, rv)
        return self.event('binop', op, lv, rv)

    @staticmethod
    def pure_literal(v):
        return isinstance(v, tuple) and v and (v[0] == 'lit' and v[1:2] != ('undefined',) or v[0] == 'pure')

    def logical(self, which, p):
        lv = self.ev(p['left'])
        if which == 'or':
            return lv if self.truthy(lv) else self.ev(p['right'])
        if which == 'and':
            return self.ev(p['right']) if self.truthy(lv) else lv
        return self.ev(p['right']) if self.decide(('nullish', lv)) else lv

    def e_Unary(self, p, e):
        op = p['op']['_d']
        a = p['arg']
        if isinstance(op, int) and op == 6 and kind(a) == 'Member':
            m = payload(a)
            ov = self.ev(m['obj'])
            pv = self.prop_value(m['prop'])
            return self.event('delete', ov, pv)
        if isinstance(op, int) and op == 6 and kind(a) == 'OptChain' and not is_lazy(payload(a)['base']) and payload(a)['base'].get('_v') == 'Member':
            # `delete a?.b.c`: the reference is deleted unless the chain short-circuits (then the result is `true`, nothing happens)
            cp = payload(a)
            m = cp['base']['_0']
            optional = cp['optional'] if isinstance(cp['optional'], bool) else self.decide(('optional', str(cp['optional'])), cp['optional'])
            ov = self.chain(m['obj'])
            if ov == SHORT:
                return ('lit', 'true')
            if optional and self.decide(('nullish', ov)):
                return ('lit', 'true')
            pv = self.prop_value(m['prop'])
            return self.event('delete', ov, pv)
        v = self.ev(a)
        return self.event('unop', op, v)

    def e_Update(self, p, e):
        a = p['arg']
        if kind(a) == 'Ident':
            cur = self.ev(a)
            nv = self.event('binop', 'update', cur, p['op']['_d'])
            self.event('assign', payload(a)['sym'], nv)
            return nv
        m = payload(a)
        ov = self.ev(m['obj'])
        pv = self.prop_value(m['prop'])
        cur = self.event('get', ov, pv)
        nv = self.event('binop', 'update', cur, p['op']['_d'])
        self.event('set', ov, pv, nv)
        return nv

    def e_Cond(self, p, e):
        tv = self.ev(p['test'])
        if self.truthy(tv):
            return self.ev(p['cons'])
        return self.ev(p['alt'])

    def e_Await(self, p, e):
        return self.event('await', self.ev(p['arg']))

    def e_Yield(self, p, e):
        v = self.ev(p['arg']) if p['arg'] is not None else ('lit', 'undefined')
        return self.event('yield', v, p['delegate'])

    def e_Array(self, p, e):
        out = []
        if is_lazy(p['elems']):
            return self.event('opaque', p['elems']['_lazy'])
        for el in p['elems']:
            if el is None:
                out.append(('hole',))
                continue
            v = self.ev(el['expr'])
            if el['spread'] is not None:
                if isinstance(v, tuple) and v and v[0] == 'arr':
                    out.extend(v[1:])
                    continue
                if self.pure_literal(v):
                    out.append(('spread', v))
                    continue
                v = ('spread', self.event('spread', v))
            out.append(v)
        return ('arr',) + tuple(out)

    def e_Object(self, p, e):
        out = []
        if is_lazy(p['props']):
            return self.event('opaque', p['props']['_lazy'])
        for pr in p['props']:
            if is_lazy(pr):
                out.append(self.event('opaque', pr['_lazy']))
                continue
            if pr.get('_v') == 'Spread':
                out.append(('spread', self.event('spread', self.ev(pr['_0']['expr']))))
                continue
            pp = pr['_0']
            if is_lazy(pp):
                out.append(self.event('opaque-prop', pp['_lazy']))
                continue

            def keyval(key):
                if is_lazy(key):
                    return self.event('opaque', key['_lazy'])
                if key.get('_v') == 'Ident':
                    return ('name', key['_0']['sym'])
                if key.get('_v') == 'Str':
                    return ('name', key['_0']['value'])
                if key.get('_v') == 'Computed':
                    # the key expression is evaluated (and converted to a property key) before the value
                    return self.event('to-property-key', self.ev(key['_0']['expr']))
                return ('key', str(key.get('_v')))
            if pp.get('_v') == 'KeyValue':
                kv = pp['_0']
                kval = keyval(kv['key'])
                out.append((kval, self.ev(kv['value'])))
            elif pp.get('_v') == 'Shorthand':
                out.append((('name', pp['_0']['sym']), self.e_Ident(pp['_0'], {'_t': 'Expr', '_v': 'Ident', '_0': pp['_0']})))
            elif pp.get('_v') == 'Method':
                mp = pp['_0']
                kval = keyval(mp['key'])
                f = mp['function']
                if is_lazy(f):
                    out.append((kval, self.event('opaque', f['_lazy'])))
                else:
                    params = [x['pat'] for x in f['params']] if not is_lazy(f['params']) else []
                    body = f['body']
                    out.append((kval, self.closure(params, body['stmts'] if body is not None and not is_lazy(body) else [], False)))
            else:
                out.append(self.event('opaque-prop', str(pp.get('_v'))))
        return ('obj',) + tuple(out)

    def e_Tpl(self, p, e):
        vals = []
        for x in p['exprs']:
            v = self.ev(x)
            if not (isinstance(v, tuple) and v and v[0] in ('tpl', 'lit', 'pure')):
                self.tostr.append(v)        # coercing a string / literal is not observable
            vals.append(('tostring', v))
        return ('tpl', tuple((q['raw'] if isinstance(q, dict) else q) for q in p['quasis'])) + tuple(vals)

    def e_TaggedTpl(self, p, e):
        fv, thisv, refl = self.call_parts(p['tag'])
        vals = [self.ev(x) for x in p['tpl']['exprs']]
        return self.event('call', fv, thisv, ('strings', str(p['tpl']['span'])), *vals)

    def e_Assign(self, p, e):
        op = p['op']['_d']
        tgt = p['left']
        if is_lazy(tgt):
            return self.event('opaque', tgt['_lazy'])
        if tgt.get('_v') == 'Pat':
            rv = self.ev(p['right'])
            return self.event('destructure', str(tgt['_0'].get('_v')), rv)
        st = tgt['_0']
        if is_lazy(st):
            return self.event('opaque', st['_lazy'])
        sk = st.get('_v')
        if not isinstance(op, int):
            # symbolic operator: `=` vs compound decided through the oracle
            if self.decide(('assign-op-is', str(op), 0), leaf_eq(op, 0)):
                op = 0
            elif self.decide(('assign-op-is', str(op), 1), leaf_eq(op, 1)):
                op = 1
            else:
                op = ('compound', op)
        if sk == 'Ident':
            ident = st['_0']['id']
            name = ident['sym']
            is_temp = span_is_dummy(ident['span']) and isinstance(name, str) and name.startswith('__datadog_')
            if op == 0:
                rv = self.ev(p['right'])
                if is_temp:
                    self.env[name] = rv
                else:
                    self.event('assign', name, rv)
                return rv
            cur = ('var', name, self.state())
            return self.compound(op, cur, p['right'], lambda nv: self.event('assign', name, nv))
        if sk == 'Member':
            m = st['_0']
            ov = self.ev(m['obj'])
            pv = self.prop_value(m['prop'])
            if op == 0:
                rv = self.ev(p['right'])
                self.event('set', ov, pv, rv)
                return rv
            cur = self.event('get', ov, pv)
            return self.compound(op, cur, p['right'], lambda nv: self.event('set', ov, pv, nv))
        if sk == 'Paren':
            return self.event('opaque-assign-paren', 0)
        raise Unsupported('jsorder: assignment target %s' % sk)

    def compound(self, op, cur, right, store):
        if isinstance(op, int) and op in ASSIGN_LOGICAL:
            which = ASSIGN_LOGICAL[op]
            take = self.truthy(cur) if which == 'and' else ((not self.truthy(cur)) if which == 'or' else self.decide(('nullish', cur)))
            if not take:
                return cur
            rv = self.ev(right)
            store(rv)
            return rv
        rv = self.ev(right)
        bop = ASSIGN_TO_BIN[op] if isinstance(op, int) else op
        nv = self.event('binop', bop, cur, rv)
        store(nv)
        return nv

    # closures: the body is evaluated once, in place, as a nested activation; its trace becomes part of the value
    def closure(self, params, body_stmts_or_expr, is_expr):
        sub = Evaluator(self.decisions)
        sub.env = dict(self.env)
        sub.zconds = self.zconds
        sub.zseen = self.zseen
        pvals = []
        for prm in params:
            pvals.append(sub.pattern(prm))
        if is_expr:
            v = sub.ev(body_stmts_or_expr)
        else:
            v = sub.block(body_stmts_or_expr)
        return ('closure', tuple(pvals), tuple(sub.trace), tuple(sub.tostr), v)

    def pattern(self, pat):
        if is_lazy(pat):
            return ('pat', pat['_lazy'])
        k = pat.get('_v')
        if k == 'Ident':
            return ('param', pat['_0']['id']['sym'])
        if k == 'Assign':
            left = self.pattern(pat['_0']['left'])
            # default initialiser: evaluated when the argument is undefined -> part of the callee's activation
            dv = self.ev(pat['_0']['right'])
            return ('param-default', left, dv)
        return ('pat', k)

    def e_Arrow(self, p, e):
        body = p['body']
        params = p['params'] if not is_lazy(p['params']) else []
        if is_lazy(body):
            return ('closure', body['_lazy'])
        if body.get('_v') == 'Expr':
            return self.closure(params, body['_0'], True)
        blk = body['_0']
        st = blk['stmts']
        from oracle import is_injected_let
        # a block made of `[let temps;] return e` created by the rewriter behaves like the expression body e
        if span_is_dummy(blk['span']) and not is_lazy(st) and st and st[-1].get('_v') == 'Return' and st[-1]['_0']['arg'] is not None and all(is_injected_let(s) is not None for s in st[:-1]):
            return self.closure(params, st[-1]['_0']['arg'], True)
        return self.closure(params, st, False)

    def e_Fn(self, p, e):
        f = p['function']
        params = [x['pat'] for x in f['params']] if not is_lazy(f['params']) else []
        body = f['body']
        return self.closure(params, body['stmts'] if body is not None and not is_lazy(body) else [], False)

    def e_Class(self, p, e):
        return self.event('class', str(p['class']['span']))

    def e_OptChain(self, p, e):
        v = self.chain(e)
        return ('lit', 'undefined') if v == SHORT else v

    def chain(self, e):
        """evaluate one link of an optional chain; returns SHORT when the chain short-circuits"""
        if kind(e) != 'OptChain':
            return self.ev(e)
        p = payload(e)
        optional = p['optional']
        if not isinstance(optional, bool):
            optional = self.decide(('optional', str(optional)), optional)
        base = p['base']
        if is_lazy(base):
            return self.event('opaque', base['_lazy'])
        if base.get('_v') == 'Member':
            m = base['_0']
            ov = self.chain(m['obj'])
            if ov == SHORT:
                return SHORT
            if optional and self.decide(('nullish', ov)):
                return SHORT
            pv = self.prop_value(m['prop'])
            return self.event('get', ov, pv)
        c = base['_0']
        callee = c['callee']
        # callee of an optional call: member callees keep their receiver
        if kind(callee) == 'OptChain' and not is_lazy(payload(callee)['base']) and payload(callee)['base'].get('_v') == 'Member':
            cp = payload(callee)
            m = cp['base']['_0']
            copt = cp['optional'] if isinstance(cp['optional'], bool) else self.decide(('optional', str(cp['optional'])), cp['optional'])
            ov = self.chain(m['obj'])
            if ov == SHORT:
                return SHORT
            if copt and self.decide(('nullish', ov)):
                return SHORT
            pv = self.prop_value(m['prop'])
            fv = self.event('get', ov, pv)
            thisv = ov
        elif kind(callee) == 'Member':
            m = payload(callee)
            ov = self.ev(m['obj'])
            pv = self.prop_value(m['prop'])
            fv = self.event('get', ov, pv)
            thisv = ov
        else:
            fv = self.chain(callee)
            if fv == SHORT:
                return SHORT
            thisv = ('lit', 'undefined')
        if optional and self.decide(('nullish', fv)):
            return SHORT
        argv = self.args(c['args'])
        return self.event('call', fv, thisv, *argv)

    # ---------------------------------------------------------------- statements (closure bodies)
    def block(self, stmts):
        from oracle import is_injected_let
        v = ('lit', 'undefined')
        if is_lazy(stmts):
            return self.event('opaque', stmts['_lazy'])
        for s in stmts:
            if is_lazy(s):
                self.event('opaque', s['_lazy'])
                continue
            if is_injected_let(s) is not None:
                continue
            k = s.get('_v')
            x = s['_0']
            if k == 'Expr':
                self.ev(x['expr'])
            elif k == 'Return':
                v = self.ev(x['arg']) if x['arg'] is not None else ('lit', 'undefined')
                self.event('return', v)
                return v
            elif k == 'Block':
                self.block(x['stmts'])
            else:
                self.event('stmt', k, str(x.get('span') if isinstance(x, dict) else ''))
        return v


def term_eq(a, b):
    """equality of value/event terms -> True | False | z3 condition"""
    if isinstance(a, tuple) and isinstance(b, tuple):
        if len(a) != len(b):
            return False
        cs = []
        for x, y in zip(a, b):
            c = term_eq(x, y)
            if c is False:
                return False
            cs.append(c)
        return conj(cs)
    if isinstance(a, (tuple, list)) or isinstance(b, (tuple, list)):
        return False
    if isinstance(a, dict) or isinstance(b, dict):
        return a == b
    return leaf_eq(a, b)


def first_trace_diff(t1, t2):
    for i, (a, b) in enumerate(zip(t1, t2)):
        c = term_eq(a, b)
        if c is not True:
            return i, a, b, c
    if len(t1) != len(t2):
        i = min(len(t1), len(t2))
        return i, (t1[i] if i < len(t1) else None), (t2[i] if i < len(t2) else None), False
    return None


def run_all(make_eval, evaluate, max_runs=2000):
    """explore every combination of oracle decisions; yields (decisions, result)"""
    work = [[]]
    out = []
    runs = 0
    while work:
        dec = work.pop()
        runs += 1
        if runs > max_runs:
            raise Unsupported('too many decision combinations')
        evl = make_eval(dec)
        try:
            res = evaluate(evl)
        except NeedDecision as nd:
            work.append(dec + [(nd.key, True)])
            work.append(dec + [(nd.key, False)])
            continue
        out.append((dec, evl, res))
    return out


def compare(in_expr, out_expr):
    """-> list of (role, cond, detail) differences between the behaviours of the two expression views"""
    diffs = []
    for dec, ev_in, v_in in run_all(lambda d: Evaluator(d), lambda e: e.ev(in_expr)):
        # the output may need further decisions
        for dec2, ev_out, v_out in run_all(lambda d: Evaluator(dec + d), lambda e: e.ev(out_expr)):
            pre = conj(ev_in.zconds + ev_out.zconds)
            if pre is False:
                continue
            d = first_trace_diff(ev_in.trace, ev_out.trace)
            if d is not None:
                i, a, b, c = d
                role = classify(a, b, ev_in.trace, ev_out.trace, i)
                diffs.append((role, conj([pre, neg(c)]), 'event %d: input %s, output %s (decisions %s)' % (i, short(a), short(b), [(short(k), v) for k, v in dec + dec2])))
                continue
            c = term_eq(v_in, v_out)
            if c is not True:
                diffs.append(('value-differs', conj([pre, neg(c)]), 'input value %s, output value %s' % (short(v_in), short(v_out))))
                continue
            # a substitution's ToString may be delayed past the evaluation of later substitutions (tolerated by the property),
            # which can also reorder it with ToString events nested in those: compare the coercions as a multiset
            d = first_trace_diff(sorted(ev_in.tostr, key=repr), sorted(ev_out.tostr, key=repr))
            if d is not None:
                diffs.append(('template-coercions-differ', conj([pre, neg(d[3])]), 'ToString #%d: %s vs %s' % (d[0], short(d[1]), short(d[2]))))
    return diffs


def classify(a, b, t_in, t_out, i):
    if a is None:
        return 'extra-effect:%s' % (b[0] if b else '?')
    if b is None:
        return 'missing-effect:%s' % (a[0] if a else '?')
    # the output repeats an earlier event of the input -> double evaluation
    if any(term_eq(b, x) is True for x in t_in[:i]):
        return 'repeated-effect:%s' % b[0]
    if len(t_out) > len(t_in):
        return 'extra-effect:%s' % b[0]
    if a[0] != b[0]:
        return 'reordered-or-different-effect:%s-vs-%s' % (a[0], b[0])
    return 'different-operands:%s' % a[0]


def short(t, n=160):
    s = repr(t)
    return s if len(s) <= n else s[:n] + '..'
