"""Lazily-initialised symbolic swc AST values, driven by a bounded grammar.

A lazy node carries (type, uid, depth, role).  When the executed code first
inspects it (discriminant, field projection, iteration) the grammar decides the
variant / length: the choice is a decision point of the path (all alternatives
are explored), children start lazy again.  The uid makes clones of a lazy node
materialise identically.  Scalars stay symbolic z3 terms.
"""
import re

import z3

from values import Adt, Tup, VecV, StrV, Ptr, Cell, UNIT
from mirparse import split_top


class LazyInfo:
    __slots__ = ('uid', 'ty', 'depth', 'role')

    def __init__(self, uid, ty, depth, role):
        self.uid = uid
        self.ty = ty
        self.depth = depth
        self.role = role


def parse_ty(t):
    """'Vec<Option<ExprOrSpread>>' -> ('Vec', ['Option<ExprOrSpread>'])"""
    t = t.strip()
    i = t.find('<')
    if i == -1:
        return t, []
    return t[:i], split_top(t[i + 1:-1])


SCALAR_INT = {'u8', 'u16', 'u32', 'u64', 'usize', 'i32', 'i64', 'isize'}


class Grammar:
    """Generic machinery; subclasses / policy dicts restrict the space."""

    def __init__(self, ctx, program, policy):
        self.ctx = ctx
        self.P = program
        self.defs = program.defs
        self.policy = policy
        self.interp = None
        self.stubs = policy.get('stubs', {})
        self.span_counter = [0]
        self.nodes = {}   # uid -> materialised value (first materialisation) for input reconstruction

    # hash containers (HashSet / HashMap) have no defined iteration order: the models ask the grammar, so that a scenario can
    # run the same code under opposite orders and compare (C16)
    order_mode = 'identity'

    def iteration_order(self, I, n, label):
        return list(range(n)) if self.order_mode == 'identity' else list(reversed(range(n)))

    # ------------------------------------------------------------ policy hooks
    def variants(self, enum_name, li):
        f = self.policy.get('variants')
        r = f(self, enum_name, li) if f else None
        if r is None:
            r = [v[0] for v in self.defs[enum_name].variants]
        return r

    def vec_lengths(self, li, elem_ty):
        f = self.policy.get('vec_lengths')
        r = f(self, li, elem_ty) if f else None
        return r if r is not None else [0, 1]

    def string_universe(self, li):
        f = self.policy.get('strings')
        r = f(self, li) if f else None
        return r

    # ------------------------------------------------------------ construction
    def lazy(self, ty, uid, depth, role):
        return self.make(ty, uid, depth, role)

    def make(self, ty, uid, depth, role):
        head, gen = parse_ty(ty)
        ctx = self.ctx
        custom = self.policy.get('make')
        if custom:
            r = custom(self, ty, uid, depth, role)
            if r is not None:
                return r
        if head == 'Box':
            return Ptr(Cell(self.make(gen[0], uid, depth, role)), (), 'box')
        if head == 'Vec':
            return VecV(None, LazyInfo(uid, ty, depth, role), gen[0])
        if head == 'Option':
            return Adt('Option', None, None, LazyInfo(uid, ty, depth, role))
        if head == 'bool':
            fixed = self.policy.get('bools', {}).get(role)
            if fixed is not None:
                return fixed
            bv = ctx.var('b!' + uid, z3.BoolSort())
            if bv.get_id() not in ctx.dom:
                ctx.set_domain(bv, [True, False])
            return bv
        if head in SCALAR_INT:
            return 0
        if head == 'f64':
            return 0.0
        if head in ('Atom', 'JsWord', 'String'):
            uni = self.string_universe(LazyInfo(uid, ty, depth, role))
            if uni is not None and len(uni) == 1:
                return StrV(uni[0])
            s = ctx.var('s!' + uid, z3.StringSort())
            if uni is not None and s.get_id() not in ctx.dom:
                ctx.set_domain(s, uni)
                ctx.add(z3.Or([s == z3.StringVal(u) for u in uni]), dom=False)
            return StrV(s)
        if head == 'Span':
            return self.make_span(uid, role)
        if head == 'SyntaxContext':
            return Adt('SyntaxContext', None, [0])
        if head == 'BytePos':
            return Adt('BytePos', None, [0])
        d = self.defs.get(head)
        if d is None:
            raise self._unsupported('no definition for type %s (uid %s)' % (ty, uid))
        if hasattr(d, 'variants'):
            if all(v[2] == 'unit' for v in d.variants):
                allowed = self.variants(head, LazyInfo(uid, ty, depth, role))
                idxs = [d.vindex(a) for a in allowed]
                if len(idxs) == 1:
                    return Adt(head, idxs[0], [])
                if head in self.policy.get('concrete_enums', ()):
                    key = 'enum:' + uid
                    if key in ctx.decisions:
                        k = ctx.decisions[key]
                    else:
                        k = idxs[ctx.choose([True] * len(idxs), 'enum ' + uid)]
                        ctx.decisions[key] = k
                    return Adt(head, k, [])
                v = ctx.var('e!' + uid, z3.IntSort())
                if v.get_id() not in ctx.dom:
                    ctx.set_domain(v, idxs)
                    ctx.add(z3.Or([v == i for i in idxs]), dom=False)
                return Adt(head, v, [])
            return Adt(head, None, None, LazyInfo(uid, ty, depth, role))
        # struct: eager, children lazy
        fields = []
        for fname, fty in d.fields:
            fields.append(self.make(fty, uid + '.' + fname, depth, (head, fname)))
        node = Adt(head, None, fields, None, {'uid': uid})
        return node

    def make_span(self, uid, role):
        mode = self.policy.get('spans', 'concrete')
        if mode == 'concrete':
            # deterministic tag derived from uid so that clones and replays agree
            m = re.match(r'^(.*)/Expr\.expr/(?:Lit/)?[A-Za-z]+\.span$', uid)
            if m:
                # the expression of an expression statement `e;` starts where the statement starts and ends one byte (the
                # semicolon the witnesses are printed with) before it: the one span relation swc guarantees that code may rely on
                pk = self.span_ids().setdefault(m.group(1) + '/Expr.span', len(self.span_ids()) + 1)
                gap = 1
                if uid.endswith('/Expr.expr/Lit/Str.span'):
                    # a string-literal statement (directive candidate): `'use strict';` or `'use strict' ;` -- the distance
                    # between the end of the literal and the end of the statement is a path decision (witnesses print it)
                    key = 'gap:' + uid
                    if key not in self.ctx.decisions:
                        self.ctx.decisions[key] = [1, 2][self.ctx.choose([True, True], 'semicolon adjacent | separated (%s)' % uid[-60:])]
                    gap = self.ctx.decisions[key]
                return Adt('Span', None, [Adt('BytePos', None, [pk * 100]), Adt('BytePos', None, [pk * 100 + 50 - gap])])
            k = self.span_ids().setdefault(uid, len(self.span_ids()) + 1)
            return Adt('Span', None, [Adt('BytePos', None, [k * 100]), Adt('BytePos', None, [k * 100 + 50])])
        lo = self.ctx.var('lo!' + uid, z3.BitVecSort(32))
        hi = self.ctx.var('hi!' + uid, z3.BitVecSort(32))
        self.ctx.add(z3.And(z3.UGE(lo, 1), z3.UGE(hi, lo)))
        return Adt('Span', None, [Adt('BytePos', None, [lo]), Adt('BytePos', None, [hi])])

    def span_ids(self):
        return self.ctx.notes.setdefault('span_ids', {})

    def _unsupported(self, msg):
        from interp import Unsupported
        return Unsupported(msg)

    def next_depth(self, depth, head):
        """depth is an int (expression nesting) or a pair (statement nesting, expression nesting)"""
        if isinstance(depth, tuple):
            s, e = depth
            if head == 'Stmt':
                return (s + 1, 0)
            if head in ('Expr', 'Pat'):
                return (s, e + 1)
            return depth
        return depth + (1 if head in ('Expr', 'Stmt', 'Pat', 'ModuleItem') else 0)

    # ------------------------------------------------------------ forcing
    def force(self, I, v):
        li = v.lazy
        ctx = self.ctx
        if isinstance(v, VecV):
            lens = self.vec_lengths(li, v.elem_ty)
            key = 'len:' + li.uid
            if key in ctx.decisions:
                n = ctx.decisions[key]
            else:
                n = lens[ctx.choose([True] * len(lens), 'len ' + li.uid)] if len(lens) > 1 else lens[0]
                ctx.decisions[key] = n
            v.items = [self.make(v.elem_ty, '%s[%d]' % (li.uid, i), li.depth, li.role) for i in range(n)]
            v.lazy = None
            return
        head, gen = parse_ty(li.ty)
        if head == 'Option':
            key = 'opt:' + li.uid
            if key in ctx.decisions:
                k = ctx.decisions[key]
            else:
                allowed = self.policy.get('options', lambda g, li: None)(self, li)
                if allowed is None:
                    allowed = [0, 1]
                k = allowed[ctx.choose([True] * len(allowed), 'opt ' + li.uid)] if len(allowed) > 1 else allowed[0]
                ctx.decisions[key] = k
            v.variant = k
            v.fields = [] if k == 0 else [self.make(gen[0], li.uid + '?', li.depth, li.role)]
            v.lazy = None
            return
        d = self.defs[head]
        key = 'var:' + li.uid
        if key in ctx.decisions:
            vn = ctx.decisions[key]
        else:
            allowed = self.variants(head, li)
            if not allowed:
                raise self._unsupported('grammar allows no variant for %s at %s' % (head, li.uid))
            vn = allowed[ctx.choose([True] * len(allowed), 'var ' + li.uid)] if len(allowed) > 1 else allowed[0]
            ctx.decisions[key] = vn
        vi = d.vindex(vn)
        vdef = d.variants[vi]
        v.variant = vi
        nd = self.next_depth(li.depth, head)
        v.fields = [self.make(fty, li.uid + '/' + vn + ('' if fname in ('0',) else '.' + fname), nd, (head + '::' + vn, fname)) for fname, fty in vdef[1]]
        v.lazy = None
        v.meta = {'uid': li.uid}
