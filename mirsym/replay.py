"""Client for the native replay driver (real rewrite_js / print_js built from the current /repo sources)."""
import json
import subprocess


class Replay:
    def __init__(self, binary):
        self.binary = binary
        self.p = None
        self.n = 0
        self.start()

    def start(self):
        self.p = subprocess.Popen([self.binary], stdin=subprocess.PIPE, stdout=subprocess.PIPE, stderr=subprocess.DEVNULL, text=True, bufsize=1)

    def call(self, req):
        self.n += 1
        req = dict(req)
        req['id'] = self.n
        try:
            self.p.stdin.write(json.dumps(req) + '\n')
            self.p.stdin.flush()
            line = self.p.stdout.readline()
        except BrokenPipeError:
            line = ''
        if not line:
            # the process died (abort / stack overflow): restart and report
            rc = self.p.poll()
            self.start()
            return {'ok': False, 'crashed': True, 'err': 'replay process died rc=%r' % (rc,)}
        return json.loads(line)

    def rewrite(self, code, config, file='test.js', files=None, parent_none=False):
        return self.call({'op': 'rewrite', 'code': code, 'file': file, 'config': config, 'files': files or {}, 'parent_none': parent_none})

    def print_js(self, code, source_map, comment, config):
        return self.call({'op': 'print_js', 'code': code, 'source_map': source_map, 'comment': comment, 'config': config})

    def normalize(self, code):
        return self.call({'op': 'normalize', 'code': code})

    def close(self):
        try:
            self.p.stdin.close()
            self.p.wait(timeout=5)
        except Exception:
            self.p.kill()
