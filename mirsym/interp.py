"""mirsym: symbolic executor for rustc MIR (text dump) with z3.

Executes the repository's own MIR.  Branches on symbolic values ask z3 which
successors are feasible and fork (decision-trace replay: a path is identified by
the list of choices taken at symbolic branch points).  External (std / swc)
functions are handled by models.py; a call with no model raises Unsupported,
which aborts the whole run (exit 2) -- it is never skipped.
"""
import os
import re
import sys
import time

import z3

import values as V
from values import Adt, Tup, VecV, StrV, Ptr, Cell, FnDef, Opaque, UNIT, MOVED, load, deep_copy, deep_clone, is_sym

sys.setrecursionlimit(200000)


class Unsupported(Exception):
    """The engine cannot encode something: inconclusive, never a pass."""


class PathEnd(Exception):
    """The current path ends here (not an engine failure)."""


class Panic(PathEnd):
    def __init__(self, kind, site, msg=''):
        PathEnd.__init__(self, '%s at %s %s' % (kind, site, msg))
        self.kind = kind
        self.site = site
        self.msg = msg


class Infeasible(PathEnd):
    pass


class NeedDecision(Exception):
    pass


# ------------------------------------------------------------------ type-string helpers

_lt_re = re.compile(r"'[a-z_][a-z0-9_]*\b ?")


def strip_lifetimes(s):
    s = _lt_re.sub('', s)
    s = s.replace('<>', '').replace('::<>', '').replace('<, ', '<').replace('for<> ', '')
    return s


_prefixes = ('wasm_bindgen::__rt::core::', 'wasm_bindgen::__rt::std::', 'wasm_bindgen::__rt::alloc::', 'std::', 'core::', 'alloc::')


def strip_generics(s):
    out = []
    depth = 0
    i = 0
    n = len(s)
    while i < n:
        c = s[i]
        if c == '<':
            depth += 1
        elif c == '>' and (i == 0 or s[i - 1] != '-'):
            depth -= 1
        elif depth == 0:
            out.append(c)
        i += 1
    r = ''.join(out)
    while '::::' in r:
        r = r.replace('::::', '::')
    if r.endswith('::'):
        r = r[:-2]
    return r


def outer_generics(s):
    """'Vec<Box<Expr>>' -> ['Box<Expr>'];  'Foo' -> []"""
    i = s.find('<')
    if i == -1 or not s.endswith('>'):
        return []
    inner = s[i + 1:-1]
    from mirparse import split_top
    return split_top(inner)


def type_head(t):
    """Short head name of a type string."""
    t = strip_lifetimes(t).strip()
    while True:
        if t.startswith('&mut '):
            t = t[5:]
        elif t.startswith('&'):
            t = t[1:].strip()
        elif t.startswith('*const '):
            t = t[7:]
        elif t.startswith('*mut '):
            t = t[5:]
        else:
            break
    if t.startswith('{'):
        return t
    if t.startswith('['):
        return 'slice'
    if t.startswith('('):
        return 'tuple'
    if t.startswith('dyn '):
        return 'dyn ' + type_head(t[4:])
    if t.startswith('impl '):
        return 'impl ' + type_head(t[5:])
    base = strip_generics(t)
    return base.split('::')[-1].strip()


_callee_cache = {}


def parse_callee(path):
    r = _callee_cache.get(path)
    if r is None:
        r = _parse_callee(path)
        _callee_cache[path] = r
    return dict(r)


def _parse_callee(path):
    """-> dict(kind='trait', self=, trait=, method=, generics=) | dict(kind='path', segs=[..], raw=)"""
    p = strip_lifetimes(path).strip()
    for pre in _prefixes:
        p = p.replace(pre, '')
    if p.startswith('<'):
        # find matching '>'
        depth = 0
        i = 0
        while i < len(p):
            c = p[i]
            if c == '<':
                depth += 1
            elif c == '>' and p[i - 1] != '-':
                depth -= 1
                if depth == 0:
                    break
            i += 1
        inner = p[1:i]
        rest = p[i + 1:]
        assert rest.startswith('::'), path
        rest = rest[2:]
        method = strip_generics(rest).split('::')[0]
        mg = rest[len(method):]
        # split inner at top-level ' as '
        depth = 0
        k = -1
        j = 0
        while j < len(inner):
            c = inner[j]
            if c in '<([{':
                depth += 1
            elif c in ')]}' or (c == '>' and inner[j - 1] != '-'):
                depth -= 1
            elif depth == 0 and inner.startswith(' as ', j):
                k = j
            j += 1
        if k == -1:
            return {'kind': 'trait', 'self': inner, 'trait': None, 'method': method, 'mgen': mg, 'raw': p}
        return {'kind': 'trait', 'self': inner[:k].strip(), 'trait': inner[k + 4:].strip(), 'method': method, 'mgen': mg, 'raw': p}
    base = strip_generics(p)
    segs = [x.strip() for x in base.split('::') if x.strip()]
    return {'kind': 'path', 'segs': segs, 'raw': p}


# ------------------------------------------------------------------ program (resolution)

class Program:
    def __init__(self, mir, defs, schema, srcroot):
        self.mir = mir
        self.defs = defs
        self.schema = schema
        self.srcroot = srcroot
        self.fns = mir['fns']
        self.by_last = {}       # last segment -> [name]
        self.impls = {}         # (SelfHead, TraitHead|None, method) -> body
        self.trait_defaults = {}  # (TraitHead, method) -> body
        self.closures = {}      # closure type string -> body
        self.repo_traits = set()
        self.drop_impls = {}    # type head -> body
        self._src_cache = {}
        self._index()

    def _src_lines(self, rel):
        if rel not in self._src_cache:
            self._src_cache[rel] = open(os.path.join(self.srcroot, rel)).read().split('\n')
        return self._src_cache[rel]

    def _impl_header(self, rel, line, col):
        lines = self._src_lines(rel)
        text = lines[line - 1][col - 1:]
        if text.startswith('impl'):
            # join following lines until '{'
            k = line
            while '{' not in text and k < len(lines):
                text += ' ' + lines[k].strip()
                k += 1
            hdr = text[:text.index('{')].strip()
            hdr = strip_lifetimes(hdr)
            m = re.match(r'^impl\s*(<.*?>)?\s*(.*)$', hdr)
            rest = m.group(2)
            # generics after impl may contain nested <>: re-do balanced
            if hdr[4:].lstrip().startswith('<'):
                s = hdr[4:].lstrip()
                depth = 0
                for i, c in enumerate(s):
                    if c == '<':
                        depth += 1
                    elif c == '>':
                        depth -= 1
                        if depth == 0:
                            break
                rest = s[i + 1:].strip()
            rest = rest.split(' where ')[0].strip()
            if ' for ' in rest:
                tr, ty = rest.split(' for ', 1)
                return type_head(ty), type_head(tr)
            return type_head(rest), None
        # derive: identifier at position = trait; type = next struct/enum
        m = re.match(r'^(\w+)', text)
        trait = m.group(1)
        for k in range(line - 1, min(line + 30, len(lines))):
            mm = re.search(r'\b(struct|enum)\s+(\w+)', lines[k])
            if mm:
                return mm.group(2), trait
        raise Unsupported('cannot resolve derive impl at %s:%d' % (rel, line))

    def _index(self):
        for name, body in self.fns.items():
            m = re.search(r'<impl at (src/[^:]+):(\d+):(\d+): \d+:\d+>::(.*)$', name)
            if m:
                rel, line, col, rest = m.group(1), int(m.group(2)), int(m.group(3)), m.group(4)
                if '{closure#' in rest or '::' in rest:
                    # closure or nested item inside a method
                    if '{closure#' in rest:
                        self._index_closure(body)
                        continue
                    if rest.split('::')[0] in ('deserialize', 'serialize', 'visit_map', 'visit_seq', 'expecting', 'visit_u64', 'visit_str', 'visit_bytes'):
                        continue
                try:
                    ty, tr = self._impl_header(rel[4:], line, col)
                except Exception:
                    continue
                method = rest.split('::')[0]
                self.impls[(ty, tr, method)] = body
                if tr == 'Drop' and method == 'drop':
                    self.drop_impls[ty] = body
                continue
            if '{closure#' in name:
                self._index_closure(body)
                continue
            segs = name.split('::')
            self.by_last.setdefault(segs[-1], []).append(name)
            # trait default methods: `Trait::method` where Trait is a repo trait and first arg may be Self
            if len(segs) >= 2 and segs[-2][:1].isupper():
                self.trait_defaults[(segs[-2], segs[-1])] = body
                self.repo_traits.add(segs[-2])
        # repo traits also from impls
        for (ty, tr, m) in self.impls:
            pass

    def _index_closure(self, body):
        if not body.args:
            return
        t = strip_lifetimes(body.args[0][1]).strip()
        t = re.sub(r'^&(mut )?', '', t).strip()
        if t.startswith('{closure@'):
            self.closures[t] = body

    def find_fn_by_path(self, segs):
        """plain function path -> body or None"""
        last = segs[-1]
        cands = self.by_last.get(last)
        if not cands:
            return None
        if len(cands) == 1:
            name = cands[0]
            nsegs = name.split('::')
            # require that the defined (trimmed) name is a suffix of the call path
            if segs[-len(nsegs):] == nsegs or len(nsegs) == 1:
                return self.fns[name]
            return None
        best = None
        for name in cands:
            nsegs = name.split('::')
            if segs[-len(nsegs):] == nsegs:
                if best is None or len(nsegs) > len(best.split('::')):
                    best = name
        return self.fns[best] if best else None


# ------------------------------------------------------------------ exploration context

class Ctx:
    """One execution path: solver state + decision trace."""

    def __init__(self, prefix, timeout_ms=30000):
        self.solver = z3.Solver()
        self.solver.set('timeout', timeout_ms)
        self.prefix = list(prefix)
        self.trace = []          # choices taken
        self.alts = []           # for decisions made beyond the prefix: (index_in_trace, [other feasible choices])
        self.pc = []             # path-condition terms (for reporting)
        self.decisions = {}      # uid -> materialisation decision (lazy nodes)
        self.vars = {}           # name -> z3 const
        self.queries = 0
        self.solver_time = 0.0
        self.log = []
        self.notes = {}
        self.completing = False
        self.dom = {}
        self.fast = 0
        self._atom_cache = {}

    def add(self, c, dom=True):
        if c is True:
            return
        self.pc.append(c)
        self.solver.add(c)
        if dom:
            self.dom_assume(c)

    # -------- finite-domain fast path: most symbolic leaves range over a small universe and are only ever
    # compared with constants; such comparisons are decided on the domain without a solver call.  The domain
    # is an over-approximation, so 'definitely true/false' answers are sound; a 'both possible' answer that the
    # full path condition refutes is caught by the solver check at the end of the path.
    def set_domain(self, v, values):
        self.dom[v.get_id()] = set(values)

    def _atom(self, c):
        cid = c.get_id()
        r = self._atom_cache.get(cid, 0)
        if r == 0:
            r = self._atom0(c)
            self._atom_cache[cid] = r
        return r

    def _atom0(self, c):
        """c is `var == const` / `const == var` / bool var -> (id, value) else None"""
        if z3.is_eq(c):
            a, b = c.arg(0), c.arg(1)
            for x, y in ((a, b), (b, a)):
                if x.get_id() in self.dom:
                    if z3.is_string_value(y):
                        return x.get_id(), y.as_string()
                    if z3.is_int_value(y):
                        return x.get_id(), y.as_long()
                    if z3.is_true(y) or z3.is_false(y):
                        return x.get_id(), z3.is_true(y)
            return None
        if z3.is_const(c) and z3.is_bool(c) and c.get_id() in self.dom:
            return c.get_id(), True
        return None

    def dom_eval(self, c):
        """-> 'T' | 'F' | 'U' (both possible on the domain) | None (not a domain condition)"""
        if c is True:
            return 'T'
        if c is False:
            return 'F'
        at = self._atom(c)
        if at is not None:
            d = self.dom[at[0]]
            if at[1] not in d:
                return 'F'
            return 'T' if len(d) == 1 else 'U'
        if z3.is_not(c):
            r = self.dom_eval(c.arg(0))
            return {'T': 'F', 'F': 'T', 'U': 'U', None: None}[r]
        if z3.is_and(c):
            rs = [self.dom_eval(x) for x in c.children()]
            if 'F' in rs:
                return 'F'
            if None in rs:
                return None
            if all(r == 'T' for r in rs):
                return 'T'
            # conjunction of disequalities on the same variable etc.: decide exactly on single-variable conjunctions
            return self._single_var(c)
        if z3.is_or(c):
            rs = [self.dom_eval(x) for x in c.children()]
            if 'T' in rs:
                return 'T'
            if None in rs:
                return None
            if all(r == 'F' for r in rs):
                return 'F'
            return self._single_var(c)
        return None

    def _vars_of(self, c, acc):
        at = self._atom(c)
        if at is not None:
            acc.add(at[0])
            return True
        if z3.is_not(c) or z3.is_and(c) or z3.is_or(c):
            return all(self._vars_of(x, acc) for x in c.children())
        return False

    def _holds(self, c, vid, val):
        at = self._atom(c)
        if at is not None:
            return at[1] == val
        if z3.is_not(c):
            return not self._holds(c.arg(0), vid, val)
        if z3.is_and(c):
            return all(self._holds(x, vid, val) for x in c.children())
        return any(self._holds(x, vid, val) for x in c.children())

    def _single_var(self, c):
        vs = set()
        if not self._vars_of(c, vs) or len(vs) != 1:
            return None
        vid = next(iter(vs))
        sat = [val for val in self.dom[vid] if self._holds(c, vid, val)]
        if not sat:
            return 'F'
        return 'T' if len(sat) == len(self.dom[vid]) else 'U'

    def dom_assume(self, c):
        if c is True or c is False or not isinstance(c, z3.ExprRef):
            return
        vs = set()
        if self._vars_of(c, vs) and len(vs) == 1:
            vid = next(iter(vs))
            self.dom[vid] = set(val for val in self.dom[vid] if self._holds(c, vid, val))
        elif z3.is_and(c):
            for x in c.children():
                self.dom_assume(x)

    def check(self, *extra):
        t = time.time()
        self.queries += 1
        r = self.solver.check(*extra)
        self.solver_time += time.time() - t
        if r == z3.unknown:
            raise Unsupported('solver returned unknown: %s ; query: %s' % (self.solver.reason_unknown(), [str(e)[:300] for e in extra]))
        return r == z3.sat

    def choose(self, options, label=''):
        """options: list of z3 Bool (or True) conditions, one per alternative.  Returns chosen index;
        asserts its condition.  Infeasible alternatives are never chosen."""
        if self.completing:
            # model completion of never-inspected input nodes: first alternative, not a decision of the path
            for i, c in enumerate(options):
                if c is True:
                    return i
            for i, c in enumerate(options):
                if c is not False and self.check(c):
                    self.add(c)
                    return i
            raise Infeasible('completion')
        k = len(self.trace)
        if k < len(self.prefix):
            idx = self.prefix[k]
            self.trace.append(idx)
            self.add(options[idx])
            return idx
        feas = []
        for i, c in enumerate(options):
            if c is True:
                feas.append(i)
                continue
            if c is False:
                continue
            r = self.dom_eval(c)
            if r is not None:
                self.fast += 1
                if r != 'F':
                    feas.append(i)
                continue
            if self.check(c):
                feas.append(i)
        if not feas:
            raise Infeasible('no feasible option at %s' % label)
        idx = feas[0]
        self.trace.append(idx)
        self.alts.append((k, feas[1:], label))
        self.add(options[idx])
        return idx

    def branch(self, cond, label=''):
        """cond: z3 Bool or python bool -> python bool (forks when both feasible)"""
        if cond is True or cond is False:
            return cond
        if z3.is_true(cond):
            return True
        if z3.is_false(cond):
            return False
        s = z3.simplify(cond)
        if z3.is_true(s):
            return True
        if z3.is_false(s):
            return False
        return self.choose([s, z3.Not(s)], label) == 0

    def var(self, name, sort):
        v = self.vars.get(name)
        if v is None:
            v = z3.Const(name, sort)
            self.vars[name] = v
        return v


# ------------------------------------------------------------------ interpreter

class Frame:
    __slots__ = ('body', 'cells', 'self_ty')

    def __init__(self, body, self_ty=None):
        self.body = body
        self.cells = {}
        self.self_ty = self_ty


class Interp:
    def __init__(self, program, ctx, grammar=None):
        self.P = program
        self.ctx = ctx
        self.grammar = grammar
        self.steps = 0
        self.max_steps = 5_000_000
        self.depth = 0
        self.const_cache = {}
        self.called = set()      # repo functions executed on this path
        self.modelled = set()    # external functions answered by a model on this path
        self.stack = []
        import models
        self.models = models
        V.FORCE[0] = self.force

    # ---------------------------------------------------------- lazy nodes
    def force(self, v):
        if self.grammar is None:
            raise Unsupported('lazy node without grammar')
        self.grammar.force(self, v)

    # ---------------------------------------------------------- places
    def resolve_place(self, frame, place):
        """-> (cell, path) with all derefs applied"""
        cell = frame.cells.get(place.local)
        if cell is None:
            cell = Cell(None)
            frame.cells[place.local] = cell
        path = ()
        for pr in place.proj:
            k = pr[0]
            if k == 'deref':
                v = load(Ptr(cell, path))
                if isinstance(v, Ptr):
                    cell, path = v.cell, v.path
                else:
                    # fat value (&str as StrV, ...): place it in a temporary cell
                    cell, path = Cell(v), ()
            elif k == 'field':
                path = path + (('f', pr[1]),)
            elif k == 'downcast':
                pass
            elif k == 'index':
                iv = frame.cells[pr[1]].v
                try:
                    iv = self.concretize_int(iv)
                except Unsupported:
                    # symbolic index into a table of concrete integers (e.g. an alphabet of bytes), read-only and last
                    # projection: the element as an if-then-else term over the index (the bounds check precedes it in MIR)
                    items = self.vec_items(load(Ptr(cell, path)))
                    if pr is place.proj[-1] and items and all(isinstance(x, int) for x in items):
                        zi = iv if z3.is_int(iv) else z3.BV2Int(iv)
                        t = z3.IntVal(items[-1])
                        for kk in range(len(items) - 2, -1, -1):
                            t = z3.If(zi == kk, z3.IntVal(items[kk]), t)
                        return Cell(t), ()
                    raise
                path = path + (('i', iv),)
            elif k == 'cindex':
                if pr[2]:
                    vec = load(Ptr(cell, path))
                    path = path + (('i', len(self.vec_items(vec)) - pr[1]),)
                else:
                    path = path + (('i', pr[1]),)
            else:
                raise Unsupported('projection %r' % (pr,))
        return cell, path

    def read_place(self, frame, place):
        cell, path = self.resolve_place(frame, place)
        v = cell.v
        for step in path:
            v = V.step_into(v, step)
        return v

    def write_place(self, frame, place, val):
        cell, path = self.resolve_place(frame, place)
        self.store(cell, path, val)

    def store(self, cell, path, val):
        if not path:
            cell.v = val
            return
        v = cell.v
        for step in path[:-1]:
            v = V.step_into(v, step)
        step = path[-1]
        if step[0] == 'f':
            if isinstance(v, Ptr):
                raise Unsupported('store into pointer internals')
            if v is None:
                raise Unsupported('field store into uninitialised aggregate')
            if v.fields is None:
                self.force(v)
            v.fields[step[1]] = val
        else:
            if v.items is None:
                self.force(v)
            v.items[step[1]] = val

    def vec_items(self, v):
        if isinstance(v, Ptr):
            v = load(v)
        if isinstance(v, VecV):
            if v.items is None:
                self.force(v)
            return v.items
        raise Unsupported('not a vec: %r' % (v,))

    def concretize_int(self, v):
        if isinstance(v, int):
            return v
        if is_sym(v):
            s = z3.simplify(v)
            if z3.is_bv_value(s) or z3.is_int_value(s):
                return s.as_long()
            raise Unsupported('symbolic index')
        raise Unsupported('index value %r' % (v,))

    # ---------------------------------------------------------- operands
    def eval_operand(self, frame, op):
        k = op[0]
        if k == 'copy':
            v = self.read_place(frame, op[1])
            if isinstance(v, (Adt, Tup, VecV)):
                return deep_copy(v)
            return v
        if k == 'move':
            pl = op[1]
            v = self.read_place(frame, pl)
            return v
        return self.eval_const(frame, op[1])

    def eval_const(self, frame, c):
        k = c[0]
        if k == 'int':
            return c[1]
        if k == 'bool':
            return c[1]
        if k == 'unit':
            return UNIT
        if k == 'str':
            return StrV(c[1])
        if k == 'bytes':
            return Ptr(Cell(VecV(list(c[1]))), ())
        if k == 'char':
            return ord(c[1])
        if k == 'promoted':
            return self.eval_promoted(frame, c[1], c[2])
        if k == 'zst':
            return UNIT
        if k == 'path':
            return self.eval_const_path(frame, c[1])
        raise Unsupported('const %r' % (c,))

    def eval_promoted(self, frame, owner, n):
        # owner in the reference is a full path; the definition uses the trimmed body name
        body = None
        key = (frame.body.name, n)
        body = self.P.mir['promoteds'].get(key)
        if body is None:
            for (o, k), b in self.P.mir['promoteds'].items():
                if k == n and (owner.endswith(o) or strip_lifetimes(owner).replace('::<>', '').endswith(o)):
                    body = b
                    break
        if body is None:
            raise Unsupported('promoted %s[%d] not found' % (owner, n))
        return self.run_body(body, [], None)

    def eval_const_path(self, frame, path):
        p = strip_lifetimes(path)
        for pre in _prefixes:
            p = p.replace(pre, '')
        base = strip_generics(p)
        last = base.split('::')[-1]
        consts = self.P.mir['consts']
        for name, val in consts.items():
            if name == base or base.endswith('::' + name) or name.endswith('::' + last) and name.split('::')[-1] == last and base.endswith(name.split('::')[-1]) and len(name.split('::')) == 1:
                if isinstance(val, tuple) and val[0] == 'value':
                    return self.eval_operand(frame, val[1])
                return self.run_body(val, [], None)
        m = self.models.const_model(self, p, base)
        if m is not None:
            return m
        # function item used as a value
        return FnDef(p)

    # ---------------------------------------------------------- rvalues
    def eval_rvalue(self, frame, rv, dest_ty=None):
        k = rv[0]
        if k == 'use':
            return self.eval_operand(frame, rv[1])
        if k == 'tls':
            raise Unsupported('thread-local static %s' % rv[1])
        if k == 'ref':
            pl = rv[2]
            if pl.proj and pl.proj[-1][0] == 'deref':
                # reborrow: if the dereferenced value is a fat value, hand it back unchanged
                from mirparse import Place
                inner = self.read_place(frame, Place(pl.local, pl.proj[:-1]))
                if not isinstance(inner, Ptr):
                    return inner
                return Ptr(inner.cell, inner.path, inner.dyn if inner.dyn != 'box' else None)
            cell, path = self.resolve_place(frame, pl)
            return Ptr(cell, path)
        if k == 'aggregate':
            return self.eval_aggregate(frame, rv, dest_ty)
        if k == 'discriminant':
            v = self.read_place(frame, rv[1])
            return self.discriminant(v)
        if k == 'cast':
            v = self.eval_operand(frame, rv[1])
            return self.cast(v, rv[2], rv[3])
        if k == 'binop':
            a = self.eval_operand(frame, rv[2])
            b = self.eval_operand(frame, rv[3])
            return self.binop(rv[1], a, b, frame, rv)
        if k == 'unop':
            a = self.eval_operand(frame, rv[2])
            if rv[1] == 'Not':
                if isinstance(a, bool):
                    return not a
                if isinstance(a, int):
                    raise Unsupported('bitwise not on concrete int (width unknown)')
                if z3.is_bool(a):
                    return z3.Not(a)
                return ~a
            if rv[1] == 'Neg':
                return -a
            if rv[1] == 'PtrMetadata':
                if isinstance(a, StrV):
                    return self.models.str_len(self, a)
                return len(self.vec_items(a))
        if k == 'len':
            return len(self.vec_items(self.read_place(frame, rv[1])))
        if k == 'repeat':
            v = self.eval_operand(frame, rv[1])
            n = int(re.match(r'\d+', rv[2].replace('const ', '')).group(0))
            return VecV([deep_copy(v) for _ in range(n)])
        raise Unsupported('rvalue %r' % (rv,))

    def discriminant(self, v):
        if isinstance(v, Adt):
            if v.lazy is not None:
                self.force(v)
            if v.variant is None:
                return 0
            return v.variant
        raise Unsupported('discriminant of %r' % (v,))

    def cast(self, v, ty, kind):
        if kind.startswith('PointerCoercion') or kind in ('Transmute', 'PtrToPtr', 'PointerExposeProvenance', 'PointerWithExposedProvenance', 'FnPtrToPtr'):
            return v
        if kind == 'IntToInt':
            if isinstance(v, (int, bool)):
                return int(v)
            if isinstance(v, Adt):
                return self.discriminant(v)
            if is_sym(v):
                return v
        raise Unsupported('cast %s %s' % (ty, kind))

    def binop(self, name, a, b, frame, rv):
        conc = isinstance(a, (int, bool)) and isinstance(b, (int, bool))
        if name in ('Eq', 'Ne', 'Lt', 'Le', 'Gt', 'Ge'):
            if conc:
                r = {'Eq': a == b, 'Ne': a != b, 'Lt': a < b, 'Le': a <= b, 'Gt': a > b, 'Ge': a >= b}[name]
                return r
            a, b = self.z_pair(a, b)
            if z3.is_bv(a):
                return {'Eq': a == b, 'Ne': a != b, 'Lt': z3.ULT(a, b), 'Le': z3.ULE(a, b), 'Gt': z3.UGT(a, b), 'Ge': z3.UGE(a, b)}[name]
            return {'Eq': a == b, 'Ne': a != b, 'Lt': a < b, 'Le': a <= b, 'Gt': a > b, 'Ge': a >= b}[name]
        if name in ('AddWithOverflow', 'SubWithOverflow'):
            if conc:
                r = a + b if name[0] == 'A' else a - b
                ovf = r < 0 or r >= (1 << 64)
                # width: take from operand constant suffix when present
                w = self.op_width(frame, rv)
                if w:
                    ovf = r < 0 or r >= (1 << w)
                return Tup([r, ovf])
            a, b = self.z_pair(a, b)
            if z3.is_bv(a):
                if name[0] == 'A':
                    return Tup([a + b, z3.Not(z3.BVAddNoOverflow(a, b, False))])
                return Tup([a - b, z3.Not(z3.BVSubNoUnderflow(a, b, False))])
            return Tup([a + b if name[0] == 'A' else a - b, False])
        if name in ('Add', 'Sub', 'Mul', 'BitAnd', 'BitOr', 'BitXor', 'AddUnchecked', 'SubUnchecked'):
            if isinstance(a, bool) and isinstance(b, bool):
                return {'BitAnd': a and b, 'BitOr': a or b, 'BitXor': a != b}[name]
            if conc:
                return {'Add': a + b, 'Sub': a - b, 'Mul': a * b, 'BitAnd': a & b, 'BitOr': a | b, 'BitXor': a ^ b, 'AddUnchecked': a + b, 'SubUnchecked': a - b}[name]
            a, b = self.z_pair(a, b)
            if z3.is_bool(a):
                return {'BitAnd': z3.And(a, b), 'BitOr': z3.Or(a, b), 'BitXor': z3.Xor(a, b)}[name]
            return {'Add': a + b, 'Sub': a - b, 'Mul': a * b, 'BitAnd': a & b, 'BitOr': a | b, 'BitXor': a ^ b, 'AddUnchecked': a + b, 'SubUnchecked': a - b}[name]
        raise Unsupported('binop %s' % name)

    def op_width(self, frame, rv):
        for op in (rv[2], rv[3]):
            if op[0] == 'const' and op[1][0] == 'int':
                t = op[1][2]
                return {'u8': 8, 'u16': 16, 'u32': 32, 'u64': 64, 'usize': 64}.get(t)
            if op[0] in ('copy', 'move') and not op[1].proj:
                t = frame.body.locals.get(op[1].local, '')
                w = {'u8': 8, 'u16': 16, 'u32': 32, 'u64': 64, 'usize': 64}.get(t)
                if w:
                    return w
        return None

    def z_pair(self, a, b):
        if is_sym(a) and not is_sym(b):
            b = self.z_lift(b, a)
        elif is_sym(b) and not is_sym(a):
            a = self.z_lift(a, b)
        return a, b

    def z_lift(self, c, like):
        if z3.is_bv(like):
            return z3.BitVecVal(int(c), like.size())
        if z3.is_bool(like):
            return z3.BoolVal(bool(c))
        if z3.is_int(like):
            return z3.IntVal(int(c))
        raise Unsupported('lift %r' % (c,))

    # ---------------------------------------------------------- aggregates
    def eval_aggregate(self, frame, rv, dest_ty):
        _, kind, path, fields = rv
        vals = [(n, self.eval_operand(frame, op)) for n, op in fields]
        if kind == 'tuple':
            return Tup([v for _, v in vals])
        if kind == 'array':
            return VecV([v for _, v in vals])
        if kind == 'closure':
            return Adt(strip_lifetimes(path), None, [v for _, v in vals], None, {'names': [n for n, _ in vals]})
        # ADT
        p = strip_lifetimes(path)
        for pre in _prefixes:
            p = p.replace(pre, '')
        base = strip_generics(p)
        segs = base.split('::')
        defs = self.P.defs
        # enum variant?  ...::Enum::Variant
        if len(segs) >= 2 and segs[-2] in defs and hasattr(defs[segs[-2]], 'variants'):
            ed = defs[segs[-2]]
            # lib_wasm::CsiMethod vs visitor CsiMethod are structs; enums are unambiguous
            try:
                vi = ed.vindex(segs[-1])
            except KeyError:
                vi = None
            if vi is not None:
                vdef = ed.variants[vi]
                if vdef[2] == 'struct':
                    order = [f for f, _ in vdef[1]]
                    d = dict(vals)
                    return Adt(ed.name, vi, [d[f] for f in order])
                return Adt(ed.name, vi, [v for _, v in vals])
        name = segs[-1]
        if name not in defs or hasattr(defs[name], 'variants'):
            # bare (trimmed) variant name, e.g. `Bin(move _11)`: resolve through the destination type
            cands = []
            if dest_ty is not None:
                dh = type_head(dest_ty)
                if dh in defs and hasattr(defs[dh], 'variants'):
                    cands = [defs[dh]]
            if not cands:
                cands = [d for d in defs.values() if hasattr(d, 'variants') and any(v[0] == name for v in d.variants)]
                seen = []
                for d in cands:
                    if d not in seen:
                        seen.append(d)
                cands = seen
            cands = [d for d in cands if any(v[0] == name for v in d.variants)]
            if len(cands) == 1:
                ed = cands[0]
                vi = ed.vindex(name)
                vdef = ed.variants[vi]
                if vdef[2] == 'struct':
                    dd = dict(vals)
                    return Adt(ed.name, vi, [dd[f] for f, _ in vdef[1]])
                return Adt(ed.name, vi, [v for _, v in vals])
            if len(cands) > 1:
                raise Unsupported('ambiguous bare variant %s (dest %s)' % (name, dest_ty))
        key = name
        if len(segs) >= 2 and (segs[-2] + '::' + name) in defs:
            key = segs[-2] + '::' + name
        sd = defs.get(key)
        if sd is None or hasattr(sd, 'variants'):
            # unknown external struct: keep field order as written
            if vals and vals[0][0] is not None:
                return Adt(name, None, [v for _, v in vals], None, {'names': [n for n, _ in vals]})
            return Adt(name, None, [v for _, v in vals])
        if vals and vals[0][0] is not None:
            d = dict(vals)
            return Adt(name, None, [d[f] for f, _ in sd.fields])
        return Adt(name, None, [v for _, v in vals])

    # ---------------------------------------------------------- execution
    def run_body(self, body, args, self_ty):
        frame = Frame(body, self_ty)
        for (l, _t), a in zip(body.args, args):
            frame.cells[l] = Cell(a)
        if body.kind == 'fn':
            self.called.add(body.name)
        self.depth += 1
        self.stack.append(body.name)
        if self.depth > 3000:
            raise Unsupported('call depth')
        try:
            bb = 0
            blocks = body.blocks
            while True:
                stmts, term = blocks[bb]
                for st in stmts:
                    self.steps += 1
                    if st[0] == 'assign':
                        val = self.eval_rvalue(frame, st[2], body.locals.get(st[1].local) if not st[1].proj else None)
                        self.write_place(frame, st[1], val)
                    elif st[0] == 'setdiscr':
                        v = self.read_place(frame, st[1])
                        if isinstance(v, Adt):
                            v.variant = st[2]
                        else:
                            raise Unsupported('setdiscr on %r' % (v,))
                if self.steps > self.max_steps:
                    raise Unsupported('step budget exhausted (non-termination?) in %s' % body.name)
                k = term[0]
                if k == 'goto':
                    bb = term[1]
                elif k == 'return':
                    c = frame.cells.get(0)
                    return c.v if c is not None and c.v is not None else UNIT
                elif k == 'switch':
                    bb = self.do_switch(frame, term)
                elif k == 'call':
                    ret = self.do_call(frame, term)
                    if term[1] is not None:
                        self.write_place(frame, term[1], ret)
                    if term[4] is None:
                        raise Panic('diverging-call', body.name, str(term[2]))
                    bb = term[4]
                elif k == 'drop':
                    self.do_drop(frame, term[1])
                    bb = term[2]
                elif k == 'assert':
                    c = self.eval_operand(frame, term[1])
                    ok = c if term[2] else (not c if isinstance(c, bool) else z3.Not(c))
                    if not isinstance(ok, bool):
                        ok = self.ctx.branch(ok, 'assert@' + body.name)
                    if not ok:
                        raise Panic('assert', body.name, term[3])
                    bb = term[4]
                elif k == 'unreachable':
                    raise Unsupported('reached `unreachable` in %s bb%d' % (body.name, bb))
                elif k == 'resume':
                    raise Unsupported('reached `resume` in %s' % body.name)
                else:
                    raise Unsupported('terminator %r' % (term,))
        finally:
            self.depth -= 1
            self.stack.pop()

    def do_switch(self, frame, term):
        _, op, targets, otherwise = term
        v = self.eval_operand(frame, op)
        if isinstance(v, bool):
            v = int(v)
        if isinstance(v, int):
            for val, bb in targets:
                if val == v:
                    return bb
            if otherwise is None:
                raise Unsupported('switch without target')
            return otherwise
        if is_sym(v):
            if z3.is_bool(v):
                # targets are on 0/1
                conds = []
                bbs = []
                for val, bb in targets:
                    conds.append(v if val else z3.Not(v))
                    bbs.append(bb)
                if otherwise is not None:
                    conds.append(z3.And([z3.Not(c) for c in conds]) if conds else True)
                    bbs.append(otherwise)
                conds = [z3.simplify(c) if not isinstance(c, bool) else c for c in conds]
                return bbs[self.ctx.choose([True if z3.is_true(c) else (False if z3.is_false(c) else c) for c in conds], 'switch@' + frame.body.name)]
            conds = []
            bbs = []
            for val, bb in targets:
                conds.append(v == val)
                bbs.append(bb)
            if otherwise is not None:
                conds.append(z3.And([v != val for val, _ in targets]))
                bbs.append(otherwise)
            sc = []
            for c in conds:
                c = z3.simplify(c)
                sc.append(True if z3.is_true(c) else (False if z3.is_false(c) else c))
            return bbs[self.ctx.choose(sc, 'switch@' + frame.body.name)]
        raise Unsupported('switch on %r' % (v,))

    def do_drop(self, frame, place):
        try:
            v = self.read_place(frame, place)
        except Exception:
            return
        self.drop_value(v)

    def drop_value(self, v):
        if isinstance(v, Adt) and v.lazy is None:
            b = self.P.drop_impls.get(v.ty)
            if b is not None:
                self.run_body(b, [Ptr(Cell(v), ())], v.ty)

    # ---------------------------------------------------------- calls
    def do_call(self, frame, term):
        _, dest, cal, argops, ret = term
        args = [self.eval_operand(frame, a) for a in argops]
        if cal[0] == 'op':
            f = self.eval_operand(frame, cal[1])
            return self.call_value(f, args)
        return self.call_path(cal[1], args, frame)

    def call_value(self, f, args):
        """call a closure / fn item with already-evaluated args"""
        if isinstance(f, Ptr):
            f = load(f) if not isinstance(load(f), Adt) or True else f
        if isinstance(f, FnDef):
            return self.call_path(f.path, args, None)
        if isinstance(f, Adt) and f.ty.startswith('{closure@'):
            body = self.P.closures.get(f.ty)
            if body is None:
                raise Unsupported('closure body %s' % f.ty)
            first_ty = strip_lifetimes(body.args[0][1]).strip()
            selfarg = Ptr(Cell(f), ()) if first_ty.startswith('&') else f
            return self.run_body(body, [selfarg] + list(args), None)
        raise Unsupported('call of value %r' % (f,))

    def call_closure(self, f, args):
        return self.call_value(f, args)

    def call_path(self, path, args, frame):
        info = parse_callee(path)
        P = self.P
        if info['kind'] == 'trait':
            self_s = info['self']
            if self_s == 'Self' and frame is not None and frame.self_ty:
                self_s = frame.self_ty
            sh = type_head(self_s)
            th = type_head(info['trait']) if info['trait'] else None
            m = info['method']
            if sh.startswith('dyn ') and args:
                # dynamic dispatch on the pointee's type
                tgt = args[0]
                pv = load(tgt) if isinstance(tgt, Ptr) else tgt
                sh = pv.ty if isinstance(pv, Adt) else sh
                self_s = sh
            body = P.impls.get((sh, th, m))
            if body is not None:
                return self.run_body(body, args, self_s)
            if body is None and args and (len(sh) <= 2 or sh.startswith('impl ')) and th is not None:
                # generic type parameter (V, T, R, impl Trait): dispatch on the run-time type of the receiver
                pv = args[0]
                while isinstance(pv, Ptr):
                    pv = load(pv)
                if isinstance(pv, Adt):
                    body = P.impls.get((pv.ty, th, m))
                    if body is not None:
                        return self.run_body(body, args, pv.ty)
                    sh = pv.ty
                    self_s = pv.ty
            if th is None:
                body = P.impls.get((sh, None, m))
                if body is not None:
                    return self.run_body(body, args, self_s)
            if th in P.repo_traits:
                body = P.trait_defaults.get((th, m))
                if body is not None:
                    return self.run_body(body, args, self_s)
            # closures called through Fn* traits
            if th in ('FnOnce', 'FnMut', 'Fn') and sh.startswith('{closure@'):
                f = args[0]
                if isinstance(f, Ptr):
                    f = load(f)
                a = args[1]
                return self.call_value(f, list(a.fields) if isinstance(a, Tup) else [a])
            info['self_head'] = sh
            info['trait_head'] = th
            info['self_full'] = self_s
            return self.call_model(info, args, frame)
        segs = info['segs']
        # inherent method / plain function in repo
        if len(segs) >= 2:
            body = P.impls.get((segs[-2], None, segs[-1]))
            if body is not None:
                return self.run_body(body, args, segs[-2])
        body = P.find_fn_by_path(segs)
        if body is not None and (len(segs) == 1 or not (segs[-2][:1].isupper() and (segs[-2], segs[-1]) not in P.trait_defaults)):
            return self.run_body(body, args, None)
        if len(segs) >= 2 and (segs[-2], segs[-1]) in P.trait_defaults:
            return self.run_body(P.trait_defaults[(segs[-2], segs[-1])], args, frame.self_ty if frame else None)
        # tuple-variant / tuple-struct constructors used as functions (e.g. `Expr::Ident` passed to map_or)
        defs = P.defs
        if len(segs) >= 2 and segs[-2] in defs and hasattr(defs[segs[-2]], 'variants'):
            ed = defs[segs[-2]]
            if any(v[0] == segs[-1] for v in ed.variants):
                return Adt(ed.name, ed.vindex(segs[-1]), list(args))
        return self.call_model(info, args, frame)

    def call_model(self, info, args, frame):
        r = self.models.dispatch(self, info, args, frame)
        return r
