"""Prints (concretised) swc AST values as JavaScript text.

No parentheses are invented: the grammar only produces trees that the parser
can produce, ParenExpr nodes are printed as parentheses.  Used for replay
inputs (the symbolic input under the solver's model) and for the predicted
output in translator validation.
"""
import z3

from values import Adt, Tup, VecV, StrV, Ptr, load

BINOPS = ['==', '!=', '===', '!==', '<', '<=', '>', '>=', '<<', '>>', '>>>', '+', '-', '*', '/', '%', '|', '^', '&', '||', '&&', 'in', 'instanceof', '**', '??']
ASSIGNOPS = ['=', '+=', '-=', '*=', '/=', '%=', '<<=', '>>=', '>>>=', '|=', '^=', '&=', '**=', '&&=', '||=', '??=']
UNARYOPS = ['-', '+', '!', '~', 'typeof ', 'void ', 'delete ']
UPDATEOPS = ['++', '--']
VARKINDS = ['var', 'let', 'const']


class Printer:
    def __init__(self, defs, model=None, ctx=None, unknown=None):
        self.defs = defs
        self.model = model
        self.ctx = ctx
        self.unknown = unknown or (lambda li: '$U_' + ''.join(c if c.isalnum() else '_' for c in li.uid))

    # -------------------------------------------------- scalars
    def ev(self, v):
        if isinstance(v, (int, bool, str, float)):
            return v
        if isinstance(v, z3.ExprRef):
            if self.model is None:
                raise ValueError('symbolic value without model')
            r = self.model.eval(v, model_completion=True)
            if z3.is_bool(r):
                return z3.is_true(r)
            if z3.is_string_value(r):
                return r.as_string()
            if z3.is_int_value(r) or z3.is_bv_value(r):
                return r.as_long()
            raise ValueError('cannot evaluate %r' % (r,))
        raise ValueError('scalar %r' % (v,))

    def s(self, v):
        if isinstance(v, Ptr):
            v = load(v)
        if isinstance(v, StrV):
            if not isinstance(v.s, str) and self.ctx is not None and self.ctx.notes.get('free_strings') and self.model is not None:
                fs = self.free_string(v.s)
                if fs is not None:
                    return fs
            r = v.s if isinstance(v.s, str) else self.ev(v.s)
            return r
        raise ValueError('string %r' % (v,))

    def free_string(self, term):
        """free string literals: contents are abstract; build `letter * length` with one letter per equality class of the model"""
        fs = self.ctx.notes['free_strings']
        ids = [sv.get_id() for sv, _ in fs]
        if term.get_id() not in ids:
            return None
        if not hasattr(self, '_fs_classes'):
            classes = {}
            self._fs_classes = {}
            for sv, nv in fs:
                val = self.model.eval(sv, model_completion=True).as_string()
                n = self.model.eval(nv, model_completion=True).as_long()
                key = (val, n)
                if key not in classes:
                    classes[key] = len(classes)
                self._fs_classes[sv.get_id()] = (classes[key], n)
        c, n = self._fs_classes[term.get_id()]
        letter = 'abcdefghijklmnopqrstuvwxyz'[c % 26]
        # a string whose character count was asked for: n bytes, k characters -> (n - k) two-byte characters + ASCII letters
        for sv, kv in self.ctx.notes.get('nchars', []):
            if sv.get_id() == term.get_id():
                k = self.model.eval(kv, model_completion=True).as_long()
                two = max(0, min(n - k, n // 2))
                return '\u00e9' * two + letter * (n - 2 * two)
        return letter * n

    def variant_name(self, a):
        d = self.defs[a.ty]
        vi = a.variant if isinstance(a.variant, int) else self.ev(a.variant)
        return d.variants[vi][0]

    def fld(self, a, name):
        d = self.defs[a.ty]
        return a.fields[d.index(name)]

    def box(self, v):
        while isinstance(v, Ptr):
            v = load(v)
        return v

    def items(self, v):
        v = self.box(v)
        if v.items is None:
            return None
        return v.items

    def opt(self, v):
        v = self.box(v)
        if v.lazy is not None:
            return None
        vi = v.variant if isinstance(v.variant, int) else self.ev(v.variant)
        return None if vi == 0 else v.fields[0]

    # -------------------------------------------------- expressions
    def expr(self, e):
        e = self.box(e)
        if e.lazy is not None:
            return self.unknown(e.lazy)
        k = self.variant_name(e)
        p = e.fields[0] if e.fields else None
        m = getattr(self, 'e_' + k, None)
        if m is None:
            raise ValueError('printer: Expr::%s' % k)
        return m(p)

    def e_This(self, p):
        return 'this'

    def e_Ident(self, p):
        return self.s(self.fld(p, 'sym'))

    def e_Lit(self, p):
        return self.lit(p)

    def lit(self, l):
        if l.lazy is not None:
            return self.unknown(l.lazy)
        k = self.variant_name(l)
        x = l.fields[0]
        if k == 'Str':
            raw = self.opt(self.fld(x, 'raw'))
            if raw is not None:
                return self.s(raw)
            return js_string(self.s(self.fld(x, 'value')))
        if k == 'Num':
            raw = self.opt(self.fld(x, 'raw'))
            if raw is not None:
                return self.s(raw)
            v = self.fld(x, 'value')
            return repr(int(v)) if float(v).is_integer() else repr(v)
        if k == 'Null':
            return 'null'
        if k == 'Bool':
            return 'true' if self.ev(self.fld(x, 'value')) else 'false'
        if k == 'Regex':
            return '/%s/%s' % (self.s(self.fld(x, 'exp')), self.s(self.fld(x, 'flags')))
        raise ValueError('printer: Lit::%s' % k)

    def e_Bin(self, p):
        op = BINOPS[self.ev(self.fld(p, 'op').variant)]
        return '%s %s %s' % (self.expr(self.fld(p, 'left')), op, self.expr(self.fld(p, 'right')))

    def e_Unary(self, p):
        op = UNARYOPS[self.ev(self.fld(p, 'op').variant)]
        return '%s%s' % (op, self.expr(self.fld(p, 'arg')))

    def e_Update(self, p):
        op = UPDATEOPS[self.ev(self.fld(p, 'op').variant)]
        a = self.expr(self.fld(p, 'arg'))
        return op + a if self.ev(self.fld(p, 'prefix')) else a + op

    def e_Assign(self, p):
        op = ASSIGNOPS[self.ev(self.fld(p, 'op').variant)]
        return '%s %s %s' % (self.assign_target(self.fld(p, 'left')), op, self.expr(self.fld(p, 'right')))

    def assign_target(self, t):
        if t.lazy is not None:
            return self.unknown(t.lazy)
        k = self.variant_name(t)
        x = t.fields[0]
        if k == 'Simple':
            if x.lazy is not None:
                return self.unknown(x.lazy)
            sk = self.variant_name(x)
            y = x.fields[0]
            if sk == 'Ident':
                return self.s(self.fld(self.fld(y, 'id'), 'sym'))
            if sk == 'Member':
                return self.e_Member(y)
            if sk == 'Paren':
                return self.e_Paren(y)
            if sk == 'OptChain':
                return self.e_OptChain(y)
            raise ValueError('printer: SimpleAssignTarget::%s' % sk)
        if x.lazy is not None:
            return self.unknown(x.lazy)
        pk = self.variant_name(x)
        y = x.fields[0]
        if pk == 'Array':
            return self.p_Array(y)
        if pk == 'Object':
            return self.p_Object(y)
        raise ValueError('printer: AssignTargetPat::%s' % pk)

    def member_prop(self, mp):
        if mp.lazy is not None:
            return '.' + self.unknown(mp.lazy)
        k = self.variant_name(mp)
        x = mp.fields[0]
        if k == 'Ident':
            return '.' + self.s(self.fld(x, 'sym'))
        if k == 'Computed':
            return '[' + self.expr(self.fld(x, 'expr')) + ']'
        if k == 'PrivateName':
            return '.#' + self.s(self.fld(x, 'name'))
        raise ValueError(k)

    def e_Member(self, p):
        return self.expr(self.fld(p, 'obj')) + self.member_prop(self.fld(p, 'prop'))

    def e_Cond(self, p):
        return '%s ? %s : %s' % (self.expr(self.fld(p, 'test')), self.expr(self.fld(p, 'cons')), self.expr(self.fld(p, 'alt')))

    def args(self, v):
        its = self.items(v)
        if its is None:
            return '...' + self.unknown(self.box(v).lazy)
        out = []
        for a in its:
            sp = self.opt(self.fld(a, 'spread'))
            out.append(('...' if sp is not None else '') + self.expr(self.fld(a, 'expr')))
        return ', '.join(out)

    def callee(self, c):
        if c.lazy is not None:
            return self.unknown(c.lazy)
        k = self.variant_name(c)
        if k == 'Expr':
            return self.expr(c.fields[0])
        if k == 'Super':
            return 'super'
        return 'import'

    def e_Call(self, p):
        return '%s(%s)' % (self.callee(self.fld(p, 'callee')), self.args(self.fld(p, 'args')))

    def e_New(self, p):
        a = self.opt(self.fld(p, 'args'))
        return 'new %s%s' % (self.expr(self.fld(p, 'callee')), '' if a is None else '(%s)' % self.args(a))

    def e_Seq(self, p):
        its = self.items(self.fld(p, 'exprs'))
        return ', '.join(self.expr(x) for x in its)

    def e_Paren(self, p):
        return '(' + self.expr(self.fld(p, 'expr')) + ')'

    def e_Array(self, p):
        out = []
        its = self.items(self.fld(p, 'elems'))
        for i, el in enumerate(its):
            x = self.opt(el)
            if x is None:
                out.append('')
                if i == len(its) - 1:
                    out.append('')
                continue
            sp = self.opt(self.fld(x, 'spread'))
            out.append(('...' if sp is not None else '') + self.expr(self.fld(x, 'expr')))
        return '[' + ', '.join(out) + ']'

    def e_Tpl(self, p):
        exprs = self.items(self.fld(p, 'exprs'))
        quasis = self.items(self.fld(p, 'quasis'))
        out = ['`']
        for i, q in enumerate(quasis):
            out.append(self.s(self.fld(q, 'raw')))
            if i < len(exprs):
                out.append('${' + self.expr(exprs[i]) + '}')
        out.append('`')
        return ''.join(out)

    def e_TaggedTpl(self, p):
        return self.expr(self.fld(p, 'tag')) + self.e_Tpl(self.box(self.fld(p, 'tpl')))

    def e_Await(self, p):
        return 'await ' + self.expr(self.fld(p, 'arg'))

    def e_Yield(self, p):
        a = self.opt(self.fld(p, 'arg'))
        return 'yield' + ('*' if self.ev(self.fld(p, 'delegate')) else '') + ('' if a is None else ' ' + self.expr(a))

    def e_Invalid(self, p):
        return '<invalid>'

    def e_OptChain(self, p):
        optional = self.ev(self.fld(p, 'optional'))
        base = self.box(self.fld(p, 'base'))
        if base.lazy is not None:
            return self.unknown(base.lazy)
        k = self.variant_name(base)
        x = base.fields[0]
        q = '?.' if optional else ''
        if k == 'Member':
            obj = self.expr(self.fld(x, 'obj'))
            mp = self.member_prop(self.fld(x, 'prop'))
            if optional:
                return obj + '?.' + (mp[1:] if mp.startswith('.') else mp)
            return obj + mp
        return '%s%s(%s)' % (self.expr(self.fld(x, 'callee')), q, self.args(self.fld(x, 'args')))

    def e_Arrow(self, p):
        params = ', '.join(self.pat(x) for x in self.items(self.fld(p, 'params')))
        body = self.box(self.fld(p, 'body'))
        pre = 'async ' if self.ev(self.fld(p, 'is_async')) else ''
        if body.lazy is not None:
            return '%s(%s) => %s' % (pre, params, self.unknown(body.lazy))
        if self.variant_name(body) == 'BlockStmt':
            return '%s(%s) => %s' % (pre, params, self.block(body.fields[0]))
        return '%s(%s) => %s' % (pre, params, self.expr(body.fields[0]))

    def e_Fn(self, p):
        ident = self.opt(self.fld(p, 'ident'))
        return self.function(self.box(self.fld(p, 'function')), '' if ident is None else self.s(self.fld(ident, 'sym')))

    def function(self, f, name, kw='function'):
        params = ', '.join(self.pat(self.fld(x, 'pat')) for x in self.items(self.fld(f, 'params')))
        body = self.opt(self.fld(f, 'body'))
        pre = ('async ' if self.ev(self.fld(f, 'is_async')) else '') + kw + ('*' if self.ev(self.fld(f, 'is_generator')) else '')
        return '%s %s(%s) %s' % (pre, name, params, self.block(body) if body is not None else '{}')

    def e_Object(self, p):
        out = []
        for pr in self.items(self.fld(p, 'props')):
            if pr.lazy is not None:
                out.append(self.unknown(pr.lazy))
                continue
            k = self.variant_name(pr)
            x = self.box(pr.fields[0])
            if k == 'Spread':
                out.append('...' + self.expr(self.fld(x, 'expr')))
                continue
            pk = self.variant_name(x)
            y = x.fields[0]
            if pk == 'KeyValue':
                out.append('%s: %s' % (self.prop_name(self.fld(y, 'key')), self.expr(self.fld(y, 'value'))))
            elif pk == 'Shorthand':
                out.append(self.s(self.fld(y, 'sym')))
            elif pk == 'Method':
                f = self.box(self.fld(y, 'function'))
                params = ', '.join(self.pat(self.fld(x2, 'pat')) for x2 in self.items(self.fld(f, 'params')))
                body = self.opt(self.fld(f, 'body'))
                pre = ('async ' if self.ev(self.fld(f, 'is_async')) else '') + ('*' if self.ev(self.fld(f, 'is_generator')) else '')
                out.append('%s%s(%s) %s' % (pre, self.prop_name(self.fld(y, 'key')), params, self.block(body) if body is not None else '{}'))
            else:
                raise ValueError('printer: Prop::%s' % pk)
        return '{' + ', '.join(out) + '}'

    def prop_name(self, pn):
        if pn.lazy is not None:
            return self.unknown(pn.lazy)
        k = self.variant_name(pn)
        x = pn.fields[0]
        if k == 'Ident':
            return self.s(self.fld(x, 'sym'))
        if k == 'Str':
            return js_string(self.s(self.fld(x, 'value')))
        if k == 'Computed':
            return '[' + self.expr(self.fld(x, 'expr')) + ']'
        raise ValueError(k)

    def e_Class(self, p):
        ident = self.opt(self.fld(p, 'ident'))
        return self.klass(self.box(self.fld(p, 'class')), '' if ident is None else self.s(self.fld(ident, 'sym')))

    def klass(self, c, name):
        sup = self.opt(self.fld(c, 'super_class'))
        out = []
        for m in self.items(self.fld(c, 'body')):
            if m.lazy is not None:
                out.append(self.unknown(m.lazy) + ';')
                continue
            k = self.variant_name(m)
            x = m.fields[0]
            if k == 'Method':
                st = 'static ' if self.ev(self.fld(x, 'is_static')) else ''
                out.append(st + self.function(self.box(self.fld(x, 'function')), self.prop_name(self.fld(x, 'key')), kw='').strip())
            elif k == 'ClassProp':
                st = 'static ' if self.ev(self.fld(x, 'is_static')) else ''
                v = self.opt(self.fld(x, 'value'))
                out.append('%s%s%s;' % (st, self.prop_name(self.fld(x, 'key')), '' if v is None else ' = ' + self.expr(v)))
            elif k == 'StaticBlock':
                out.append('static ' + self.block(self.fld(x, 'body')))
            elif k == 'Constructor':
                params = ', '.join(self.pat(self.box(pp).fields[0]) for pp in self.items(self.fld(x, 'params')))
                b = self.opt(self.fld(x, 'body'))
                out.append('constructor(%s) %s' % (params, self.block(b) if b is not None else '{}'))
            else:
                raise ValueError('printer: ClassMember::%s' % k)
        return 'class %s%s { %s }' % (name, '' if sup is None else ' extends ' + self.expr(sup), ' '.join(out))

    # -------------------------------------------------- patterns
    def pat(self, p):
        p = self.box(p)
        if p.lazy is not None:
            return self.unknown(p.lazy)
        k = self.variant_name(p)
        x = p.fields[0]
        if k == 'Ident':
            return self.s(self.fld(self.fld(x, 'id'), 'sym'))
        if k == 'Assign':
            return '%s = %s' % (self.pat(self.fld(x, 'left')), self.expr(self.fld(x, 'right')))
        if k == 'Rest':
            return '...' + self.pat(self.fld(x, 'arg'))
        if k == 'Array':
            return self.p_Array(x)
        if k == 'Object':
            return self.p_Object(x)
        if k == 'Expr':
            return self.expr(x)
        raise ValueError('printer: Pat::%s' % k)

    def p_Array(self, x):
        out = []
        for el in self.items(self.fld(x, 'elems')):
            e = self.opt(el)
            out.append('' if e is None else self.pat(e))
        return '[' + ', '.join(out) + ']'

    def p_Object(self, x):
        out = []
        for pr in self.items(self.fld(x, 'props')):
            k = self.variant_name(pr)
            y = pr.fields[0]
            if k == 'KeyValue':
                out.append('%s: %s' % (self.prop_name(self.fld(y, 'key')), self.pat(self.fld(y, 'value'))))
            elif k == 'Assign':
                v = self.opt(self.fld(y, 'value'))
                out.append(self.s(self.fld(self.fld(y, 'key'), 'id').fields[2] if False else self.fld(self.fld(self.fld(y, 'key'), 'id'), 'sym')) + ('' if v is None else ' = ' + self.expr(v)))
            else:
                out.append('...' + self.pat(self.fld(y, 'arg')))
        return '{' + ', '.join(out) + '}'

    # -------------------------------------------------- statements
    def block(self, b):
        its = self.items(self.fld(b, 'stmts'))
        if its is None:
            return '{ ' + self.unknown(self.box(self.fld(b, 'stmts')).lazy) + '; }'
        return '{ ' + ' '.join(self.stmt(s) for s in its) + ' }'

    def stmt(self, s):
        s = self.box(s)
        if s.lazy is not None:
            return self.unknown(s.lazy) + ';'
        k = self.variant_name(s)
        x = self.box(s.fields[0])
        m = getattr(self, 's_' + k)
        return m(x)

    def s_Block(self, x):
        return self.block(x)

    def s_Empty(self, x):
        return ';'

    def s_Debugger(self, x):
        return 'debugger;'

    def s_Expr(self, x):
        e = self.fld(x, 'expr')
        sep = ''
        try:
            # realise the span relation of the model: a statement that ends more than one byte after its expression has
            # something (a space) between the expression and the semicolon
            eb = self.box(e)
            if eb.lazy is None and self.variant_name(eb) == 'Lit':
                lit = eb.fields[0]
                if lit.lazy is None and self.variant_name(lit) == 'Str':
                    hi_e = self.fld(lit.fields[0], 'span').fields[1].fields[0]
                    hi_s = self.fld(x, 'span').fields[1].fields[0]
                    if isinstance(hi_e, int) and isinstance(hi_s, int) and hi_s - hi_e >= 2 and hi_s // 100 == hi_e // 100:
                        sep = ' '
        except Exception:
            sep = ''
        return self.expr(e) + sep + ';'

    def s_Return(self, x):
        a = self.opt(self.fld(x, 'arg'))
        return 'return' + ('' if a is None else ' ' + self.expr(a)) + ';'

    def s_Throw(self, x):
        return 'throw ' + self.expr(self.fld(x, 'arg')) + ';'

    def s_If(self, x):
        alt = self.opt(self.fld(x, 'alt'))
        return 'if (%s) %s%s' % (self.expr(self.fld(x, 'test')), self.stmt(self.fld(x, 'cons')), '' if alt is None else ' else ' + self.stmt(alt))

    def s_While(self, x):
        return 'while (%s) %s' % (self.expr(self.fld(x, 'test')), self.stmt(self.fld(x, 'body')))

    def s_DoWhile(self, x):
        return 'do %s while (%s);' % (self.stmt(self.fld(x, 'body')), self.expr(self.fld(x, 'test')))

    def s_For(self, x):
        init = self.opt(self.fld(x, 'init'))
        test = self.opt(self.fld(x, 'test'))
        upd = self.opt(self.fld(x, 'update'))
        i = ''
        if init is not None:
            if init.lazy is not None:
                i = self.unknown(init.lazy)
            elif self.variant_name(init) == 'VarDecl':
                i = self.var_decl(self.box(init.fields[0]))
            else:
                i = self.expr(init.fields[0])
        return 'for (%s; %s; %s) %s' % (i, '' if test is None else self.expr(test), '' if upd is None else self.expr(upd), self.stmt(self.fld(x, 'body')))

    def for_head(self, h):
        if h.lazy is not None:
            return self.unknown(h.lazy)
        k = self.variant_name(h)
        y = self.box(h.fields[0])
        if k == 'VarDecl':
            return self.var_decl(y)
        if k == 'Pat':
            return self.pat(y)
        raise ValueError('printer: ForHead::%s' % k)

    def s_ForIn(self, x):
        return 'for (%s in %s) %s' % (self.for_head(self.fld(x, 'left')), self.expr(self.fld(x, 'right')), self.stmt(self.fld(x, 'body')))

    def s_ForOf(self, x):
        return 'for (%s of %s) %s' % (self.for_head(self.fld(x, 'left')), self.expr(self.fld(x, 'right')), self.stmt(self.fld(x, 'body')))

    def s_Labeled(self, x):
        return '%s: %s' % (self.s(self.fld(self.fld(x, 'label'), 'sym')), self.stmt(self.fld(x, 'body')))

    def s_Break(self, x):
        return 'break;'

    def s_Continue(self, x):
        return 'continue;'

    def s_Switch(self, x):
        cases = []
        for c in self.items(self.fld(x, 'cases')):
            t = self.opt(self.fld(c, 'test'))
            cases.append(('default:' if t is None else 'case %s:' % self.expr(t)) + ' ' + ' '.join(self.stmt(s) for s in self.items(self.fld(c, 'cons'))))
        return 'switch (%s) { %s }' % (self.expr(self.fld(x, 'discriminant')), ' '.join(cases))

    def s_Try(self, x):
        h = self.opt(self.fld(x, 'handler'))
        f = self.opt(self.fld(x, 'finalizer'))
        out = 'try ' + self.block(self.fld(x, 'block'))
        if h is not None:
            prm = self.opt(self.fld(h, 'param'))
            out += ' catch%s %s' % ('' if prm is None else ' (%s)' % self.pat(prm), self.block(self.fld(h, 'body')))
        if f is not None:
            out += ' finally ' + self.block(f)
        return out

    def var_decl(self, x):
        kind = VARKINDS[self.ev(self.fld(x, 'kind').variant)]
        ds = []
        for d in self.items(self.fld(x, 'decls')):
            init = self.opt(self.fld(d, 'init'))
            ds.append(self.pat(self.fld(d, 'name')) + ('' if init is None else ' = ' + self.expr(init)))
        return '%s %s' % (kind, ', '.join(ds))

    def s_Decl(self, x):
        if x.lazy is not None:
            return self.unknown(x.lazy) + ';'
        k = self.variant_name(x)
        y = self.box(x.fields[0])
        if k == 'Var':
            return self.var_decl(y) + ';'
        if k == 'Fn':
            return self.function(self.box(self.fld(y, 'function')), self.s(self.fld(self.fld(y, 'ident'), 'sym')))
        if k == 'Class':
            return self.klass(self.box(self.fld(y, 'class')), self.s(self.fld(self.fld(y, 'ident'), 'sym')))
        raise ValueError('printer: Decl::%s' % k)

    def module_item(self, mi):
        if mi.lazy is not None:
            return self.unknown(mi.lazy) + ';'
        k = self.variant_name(mi)
        x = mi.fields[0]
        if k == 'Stmt':
            return self.stmt(x)
        if x.lazy is not None:
            return self.unknown(x.lazy)
        dk = self.variant_name(x)
        y = x.fields[0]
        if dk == 'ExportDecl':
            return 'export ' + self.s_Decl(self.fld(y, 'decl'))
        if dk == 'Import':
            return 'import %s;' % js_string(self.s(self.fld(self.box(self.fld(y, 'src')), 'value')))
        raise ValueError('printer: ModuleDecl::%s' % dk)

    def program(self, p):
        k = self.variant_name(p)
        x = p.fields[0]
        if k == 'Script':
            return '\n'.join(self.stmt(s) for s in self.items(self.fld(x, 'body')))
        return '\n'.join(self.module_item(s) for s in self.items(self.fld(x, 'body')))


def js_string(s):
    out = ['"']
    for ch in s:
        if ch == '"':
            out.append('\\"')
        elif ch == '\\':
            out.append('\\\\')
        elif ch == '\n':
            out.append('\\n')
        elif ord(ch) < 32:
            out.append('\\x%02x' % ord(ch))
        else:
            out.append(ch)
    out.append('"')
    return ''.join(out)
