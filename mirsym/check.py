"""./check <property> [--tier quick|thorough]

Decides one property with the mirsym engine (symbolic execution of /repo's MIR + z3), replays every
solver counterexample against the native build of the same sources, writes /verif/evidence/<id>.json.

exit 0: held on everything explored (known findings listed)   exit 1: VIOLATION   exit 2: inconclusive (engine/solver)
"""
import argparse
import collections
import json
import os
import sys
import time

HERE = os.path.dirname(os.path.abspath(__file__))
VERIF = os.path.dirname(HERE)
sys.path.insert(0, HERE)

import mirror
import props
import runner

LEVEL = 'model_checking'


def main():
    ap = argparse.ArgumentParser()
    ap.add_argument('prop')
    ap.add_argument('--tier', default=os.environ.get('VERIF_TIER', 'quick'))
    ap.add_argument('--procs', type=int, default=int(os.environ.get('VERIF_PROCS', '16')))
    a = ap.parse_args()
    prop, tier = a.prop, a.tier
    seed = int(os.environ.get('VERIF_SEED', '0') or 0)
    t0 = time.time()
    try:
        build = mirror.build()
    except Exception as e:
        print('INCONCLUSIVE property=%s build failed: %s' % (prop, e))
        return 2
    plans = props.plan(prop, tier)
    try:
        # parse the MIR once here (cached for the workers): a dump the parser cannot read is inconclusive, at once
        import engine
        engine.load_program(build['mir'], build['src'], cache_dir=build['dir'])
    except Exception as e:
        print('INCONCLUSIVE property=%s the MIR of the current tree could not be loaded: %r' % (prop, e))
        return 2
    ex = runner.Explorer(build, 'props', a.procs)
    known = runner.load_known()
    runs = []
    allv = []
    engine_error = None
    budget = {'quick': 1200, 'thorough': 3300}[tier]
    tv_every = {'quick': 7, 'thorough': 3}[tier]
    try:
        for pl in plans:
            deadline = t0 + budget
            args = pl['args']
            if prop == 'C01' and pl['scenario'] == 'block_expr' and not os.environ.get('VERIF_NO_V8'):
                # validate the evaluation-order model against V8 on translator-validated paths (every 3rd / every one)
                args = dict(args, v8={'quick': 3, 'thorough': 1}[tier])
            r = ex.explore(pl['scenario'], args, tv_every=tv_every, seed=seed, deadline=deadline)
            r['label'] = pl['label']
            runs.append(r)
            if r['error']:
                engine_error = r['error']
                break
            allv.extend(v for v in r['violations'] if v['prop'] == prop)
            if prop == 'C13':
                # totality: every path that ends in a panic of repository code is a violation
                allv.extend(v for v in r['panics'] if v.get('prop', 'C13') == 'C13')
            if r['tv_bad']:
                engine_error = 'translator validation disagreement: %s' % json.dumps(r['tv_bad'][0])[:1500]
                break
            if r['v8_bad']:
                engine_error = 'semantic-model validation: V8 distinguishes input and output where the evaluation-order model (jsorder) sees none: %s' % json.dumps(r['v8_bad'][0])[:2500]
                break
    finally:
        ex.close()
    scan_info = None
    if prop in ('C16', 'C05'):
        import engine
        import statescan
        P = engine.load_program(build['mir'], build['src'], cache_dir=build['dir'])
        mir_text = open(build['mir']).read()
        findings = []
        if prop == 'C16':
            scan_info = statescan.scan(P, mir_text)
            findings += scan_info['findings']
        # configuration construction (RewriterConfig::to_config -> generate_prefix_stmts, CsiMethods::new): a static reachable from
        # it makes the configuration (prologue, method table) of one rewriter depend on rewriters built earlier in the process
        cfg_entries = tuple(n for n in P.fns if n.split('::')[-1] in ('to_config', 'generate_prefix_stmts') and '{closure' not in n)
        cfg_scan = statescan.scan(P, mir_text, entries=cfg_entries)
        for f in cfg_scan['findings']:
            if f['kind'] == 'static-reachable-from-rewrite':
                f = dict(f, kind='static-reachable-from-configuration-construction')
                findings.append(f)
        if scan_info is None:
            scan_info = {'statics': cfg_scan['statics'], 'reachable_functions': cfg_scan['reachable_functions'], 'total_functions': cfg_scan['total_functions'], 'findings': [], 'reachable': cfg_scan['reachable'], 'configuration_types_scanned': cfg_scan['configuration_types_scanned']}
        scan_info['configuration_entries'] = list(cfg_entries)
        scan_info['findings'] = findings
        for f in findings:
            allv.append({'prop': prop, 'role': 'state/%s:%s' % (f['kind'], f.get('item', ','.join(f.get('functions', [])))), 'detail': json.dumps(f), 'trace': [], 'witness': {'input': json.dumps(f), 'agree': True, 'note': 'static call-graph finding on the MIR'}})
    wall = time.time() - t0
    # ---- triage
    by_role = collections.OrderedDict()
    for v in allv:
        by_role.setdefault(v['role'], []).append(v)
    new_roles = []
    known_roles = []
    nonrepro = []
    for role, vs in by_role.items():
        k = runner.match_known(known, prop, role)
        w = next((v['witness'] for v in vs if v.get('witness')), None)
        if w is not None and not w.get('agree'):
            nonrepro.append((role, w))
            continue
        if k is not None:
            known_roles.append((role, k, len(vs), w))
        else:
            new_roles.append((role, vs, w))
    # ---- evidence
    paths = sum(r['paths'] for r in runs)
    ev = {
        'property_id': prop, 'tier': tier, 'seed': seed, 'level': LEVEL, 'wall_s': round(wall, 1),
        'violations': len(new_roles),
        'coverage': {
            'states': paths,
            'transitions': sum(r['decisions'] for r in runs),
            'traces_validated_against_impl': sum(r['tv'] for r in runs),
            'samples': [s for r in runs for s in r['samples']][:6] or [{'note': 'no sample'}],
            'exhaustive': all(r['exhaustive'] for r in runs) and not engine_error,
            'paths_ok': sum(r['ok'] for r in runs), 'paths_panic': sum(r['panic'] for r in runs), 'paths_infeasible': sum(r['infeasible'] for r in runs),
            'paths_with_hook': sum(r['hook_paths'] for r in runs),
            'obligations': sum(r['obligations'] for r in runs),
            'solver_queries': sum(r['queries'] for r in runs), 'solver_time_s': round(sum(r['solver_s'] for r in runs), 1),
            'mir_statements_executed': sum(r['steps'] for r in runs),
            'cpu_s': round(sum(r['cpu_s'] for r in runs), 1),
            'functions_encoded': sorted(set(f for r in runs for f in r['called'])),
            'external_models_used': sorted(set(f for r in runs for f in r['modelled'])),
            'bounds': [r['label'] for r in runs],
            'scenarios': [{'label': r['label'], 'paths': r['paths'], 'hook_paths': r['hook_paths'], 'tv': r['tv'], 'exhaustive': r['exhaustive']} for r in runs],
            'known_findings_hit': [{'role': role, 'paths': n} for role, k, n, w in known_roles],
            'v8_model_validation': {k: sum(r['v8'][k] for r in runs) for k in ('compared', 'agree_equal', 'agree_differ', 'model_differs_v8_equal', 'v8_differs_model_equal', 'skipped')},
            'explanation': 'Symbolic execution of the MIR rustc produced from the current /repo sources (mirsym); one state = one explored path of the bounded grammar, transitions = symbolic decisions taken; every obligation is decided by z3 on the path condition; counterexamples are replayed against the native build (translator validation).',
            'mir_key': build['key'],
        },
        'assumptions': [
            'models of std/swc leaf functions in /verif/mirsym/models.py (listed under external_models_used)',
            'traversal order taken from swc_ecma_visit generated.rs (parsed mechanically)',
            'bounded grammar: see coverage.bounds; deeper nesting / other node kinds are outside the claim',
            'swc parser and code generator, V8 are not encoded',
        ],
    }
    if engine_error:
        ev['coverage']['engine_error'] = engine_error[:4000]
    if scan_info is not None:
        ev['coverage']['static_state_scan'] = {k: v for k, v in scan_info.items() if k != 'reachable'}
        ev['coverage']['static_state_scan']['reachable_sample'] = scan_info['reachable'][:10]
    runner.write_evidence(prop, ev)
    # ---- report
    print('property=%s tier=%s paths=%d hook_paths=%d obligations=%d queries=%d solver=%.1fs tv=%d wall=%.1fs' % (prop, tier, paths, ev['coverage']['paths_with_hook'], ev['coverage']['obligations'], ev['coverage']['solver_queries'], ev['coverage']['solver_time_s'], ev['coverage']['traces_validated_against_impl'], wall))
    for role, k, n, w in known_roles:
        print('KNOWN-FINDING: property=%s %s (%s; %d paths%s%s)' % (prop, role, k.get('what', ''), n, '; e.g. ' + (w.get('input') or '').replace('\n', ' ') if w else '', '; V8: %s' % w['v8'].get('verdict') if w and w.get('v8') else ''))
    if engine_error and not new_roles:
        print('INCONCLUSIVE property=%s %s' % (prop, engine_error[:3000]))
        return 2
    if engine_error:
        # confirmed violations stand on their own; the exploration that stopped early is reported as well
        print('NOTE property=%s exploration incomplete: %s' % (prop, engine_error[:600].replace('\n', ' ')))
    if nonrepro and not new_roles:
        role, w = nonrepro[0]
        print('INCONCLUSIVE property=%s counterexample for %s did not reproduce natively: %s' % (prop, role, json.dumps(w)[:2000]))
        return 2
    if new_roles:
        for i, (role, vs, w) in enumerate(new_roles):
            rec = {'property': prop, 'role': role, 'detail': vs[0]['detail'], 'paths': len(vs), 'trace': vs[0]['trace']}
            if w:
                rec.update({'v8': w.get('v8'), 'input': w.get('input'), 'config': w.get('config'), 'predicted_output': w.get('predicted_output'), 'native_output': w.get('native_output'), 'native': w.get('native'), 'reproduced': w.get('agree'), 'note': w.get('note'), 'file': w.get('file'), 'stubs': w.get('stubs')})
            q = next((v.get('query') for v in vs if v.get('query')), None)
            if q:
                rec['query'] = q
            d = runner.write_replay(prop, i, rec)
            print('VIOLATION property=%s replay=%s   # %s: %s | input: %s' % (prop, d, role, vs[0]['detail'], ((w.get('input') or '?').replace('\n', ' ') if w else '?')))
        return 1
    print('OK property=%s' % prop)
    return 0


if __name__ == '__main__':
    try:
        rc = main()
    except SystemExit:
        raise
    except BaseException as e:       # an internal failure of the machinery is never a verdict
        import traceback
        traceback.print_exc()
        print('INCONCLUSIVE internal error: %r' % (e,))
        rc = 2
    sys.exit(rc)
