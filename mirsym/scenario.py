"""Scenarios = symbolic configuration + symbolic input + entry point, and translator validation
of each explored path against the native build of the same sources."""
import json
import zlib
import re
import time

import z3

from values import Adt, Tup, VecV, StrV, Ptr, Cell, load
from grammars import ExprGrammar, ExprPolicy, materialise_input, complete_tree
from harness import mk_csi_methods, mk_config, BlockHarness
from jsprint import Printer
import models


class AstChecksBase:
    pass


class ConfigSpec:
    """Method table with symbolic fields.
    entries: list of dicts(src=[universe]|str, dst=[universe incl None]|str|None, operator=None|bool, awc=None|bool)
    None for a flag = symbolic boolean."""

    def __init__(self, entries, prefix='test', verbosity='Information', literals=False, comments=False, chain=False):
        self.entries = entries
        self.prefix = prefix
        self.verbosity = verbosity
        self.literals = literals
        self.comments = comments
        self.chain = chain

    def build(self, I):
        ctx = I.ctx
        ms = []
        self.terms = []
        for i, e in enumerate(self.entries):
            src = e['src']
            if isinstance(src, list):
                v = ctx.var('cfg!src%d' % i, z3.StringSort())
                ctx.add(z3.Or([v == z3.StringVal(u) for u in src]))
                src = v
            dst = e.get('dst')
            dst_term = dst
            if isinstance(dst, list):
                # None in the universe = Option::None
                has_none = None in dst
                strs = [d for d in dst if d is not None]
                v = ctx.var('cfg!dst%d' % i, z3.StringSort())
                ctx.add(z3.Or([v == z3.StringVal(u) for u in strs]))
                if has_none:
                    b = ctx.var('cfg!dstnone%d' % i, z3.BoolSort())
                    is_none = ctx.branch(b, 'cfg dst none %d' % i)
                    dst_term = None if is_none else v
                else:
                    dst_term = v
            op = e.get('operator')
            if op is None:
                op = ctx.var('cfg!op%d' % i, z3.BoolSort())
            awc = e.get('awc')
            if awc is None:
                awc = ctx.var('cfg!awc%d' % i, z3.BoolSort())
            ms.append((src, dst_term, op, awc))
            self.terms.append((src, dst_term, op, awc))
        csi = mk_csi_methods(I, ms)
        verb = self.verbosity
        if isinstance(verb, list):
            d = I.P.defs['TelemetryVerbosity']
            v = ctx.var('cfg!verbosity', z3.IntSort())
            ctx.add(z3.Or([v == d.vindex(n) for n in verb]))
            verb = v
        self.verb_term = verb
        return mk_config(I, csi, prefix=self.prefix, verb=verb, literals=self.literals, comments=self.comments, chain=self.chain)

    def concrete(self, I, pr):
        """config JSON for the native replay under the model of printer pr"""
        ms = []
        for (src, dst, op, awc) in self.terms:
            m = {'src': src if isinstance(src, str) else pr.ev(src)}
            if dst is not None:
                m['dst'] = dst if isinstance(dst, str) else pr.ev(dst)
            m['operator'] = op if isinstance(op, bool) else pr.ev(op)
            m['allowed_without_callee'] = awc if isinstance(awc, bool) else pr.ev(awc)
            ms.append(m)
        verb = self.verb_term
        if not isinstance(verb, str):
            verb = I.P.defs['TelemetryVerbosity'].variants[pr.ev(verb)][0]
        cfg = {'methods': ms, 'prefix': self.prefix, 'verbosity': verb.upper(), 'literals': self.literals, 'comments': self.comments, 'chain': self.chain, 'prologue': False}
        if getattr(self, 'prologue_code', None):
            cfg['prologue_code'] = self.prologue_code
        return cfg


class BlockScenario(AstChecksBase):
    """`{ <expr>; }` : one symbolic expression statement inside a block, through BlockTransformVisitor::visit_mut_block_stmt."""

    def __init__(self, ep, cfgspec, wrapper=None, v8=None):
        self.ep = ep
        self.cfgspec = cfgspec
        self.v8 = v8 if not wrapper else None      # V8 differential validation of every v8-th translator-validated path
        # (prefix, suffix) of JS text put around the printed block in witnesses, e.g. a class with a private field and a
        # method, so that `this.#x` parses; the block itself is still what the symbolic run visits
        self.wrapper = wrapper

    def print_input(self, pr, inp):
        s = pr.block(inp)
        return self.wrapper[0] + s + self.wrapper[1] if self.wrapper else s

    def print_output(self, pr, out):
        s = pr.block(out)
        return self.wrapper[0] + s + self.wrapper[1] if self.wrapper else s

    def grammar(self, ctx, program):
        return ExprGrammar(ctx, program, self.ep)

    def run(self, I):
        g = I.grammar
        cfgspec = ConfigSpec(self.cfgspec.entries, self.cfgspec.prefix, self.cfgspec.verbosity, self.cfgspec.literals, self.cfgspec.comments, self.cfgspec.chain)
        cfg = cfgspec.build(I)
        I.ctx.notes['cfgspec'] = cfgspec
        H = BlockHarness(I, cfg)
        block = self.make_block(g)
        out = H.visit_block(block)
        return {'out': out, 'H': H, 'cfgspec': cfgspec, 'I': I}

    def make_block(self, g):
        P = g.P
        stmt = Adt('Stmt', P.defs['Stmt'].vindex('Expr'), [Adt('ExprStmt', None, [g.make_span('S0.span', None), g.make('Box<Expr>', 'E', 0, ('ExprStmt', 'expr'))])])
        return Adt('BlockStmt', None, [g.make_span('B.span', None), Adt('SyntaxContext', None, [0]), VecV([stmt])])

    def input_tree(self, res):
        return self.make_block_input(res['I'].grammar)

    def make_block_input(self, g):
        P = g.P
        e = materialise_input(g, 'Box<Expr>', 'E', 0, ('ExprStmt', 'expr'))
        stmt = Adt('Stmt', P.defs['Stmt'].vindex('Expr'), [Adt('ExprStmt', None, [g.make_span('S0.span', None), e])])
        return Adt('BlockStmt', None, [g.make_span('B.span', None), Adt('SyntaxContext', None, [0]), VecV([stmt])])

    def output_js(self, res, pr):
        return pr.block(res['out'])


def norm_ws(s):
    return re.sub(r'\s+', ' ', s).strip()


def validate_path(scn, res, ctx, replay, stats):
    """Translator validation of one path: the predicted output (mirsym) must equal the native output."""
    I = res['I']
    inp = scn.input_tree(res)
    complete_tree(I.grammar, inp)
    complete_tree(I.grammar, res['out'])
    if not ctx.check():
        raise RuntimeError('path condition unsat after model completion')
    model = ctx.solver.model()
    pr = Printer(I.P.defs, model, ctx)
    src = pr.block(inp)
    res['input_tree'] = inp
    cfg = res['cfgspec'].concrete(I, pr)
    nat = replay.rewrite(src, cfg)
    status = res['H'].status()
    st = status.fields[0].variant
    st_name = ['modified', 'notmodified', 'cancelled'][st]
    rec = {'input': src, 'config': cfg, 'native': nat, 'predicted_status': st_name}
    if st_name == 'cancelled':
        ok = (not nat.get('ok')) and not nat.get('panic')
        rec['agree'] = ok
        return rec
    if not nat.get('ok'):
        rec['agree'] = False
        rec['why'] = 'native failed: %s' % nat.get('err')
        return rec
    if nat['status'] != st_name:
        rec['agree'] = False
        rec['why'] = 'status native=%s predicted=%s' % (nat['status'], st_name)
        return rec
    pred = scn.output_js(res, pr)
    rec['predicted'] = pred
    if st_name == 'notmodified':
        # native prints nothing for unmodified files; compare the (possibly arrow-normalised) tree with the input only for shape sanity
        rec['agree'] = True
        return rec
    n1 = replay.normalize(pred)
    n2 = replay.normalize(nat['code'])
    if not n1.get('ok') or not n2.get('ok'):
        rec['agree'] = False
        rec['why'] = 'normalize failed: %s / %s' % (n1.get('err'), n2.get('err'))
        return rec
    rec['agree'] = norm_ws(n1['code']) == norm_ws(n2['code'])
    if not rec['agree']:
        rec['why'] = 'output differs'
        rec['pred_norm'] = n1['code']
        rec['nat_norm'] = n2['code']
    # telemetry
    tel = status.fields[2]
    cnt = tel.fields[0].fields[0] if tel.fields and tel.fields[0].fields else 0
    if isinstance(cnt, z3.ExprRef):
        cnt = pr.ev(cnt)
    rec['predicted_count'] = cnt
    if rec['agree'] and nat.get('instrumented_propagation') != cnt:
        rec['agree'] = False
        rec['why'] = 'telemetry native=%s predicted=%s' % (nat.get('instrumented_propagation'), cnt)
    return rec


# ---------------------------------------------------------------------------------------------
# per-path checking shared by the AST scenarios

from view import to_view
import oracle as O
from interp import Unsupported


def witness(scn, res, ctx, replay, cond=None, keep=None):
    """concrete witness of the current path (optionally with an extra condition): input JS, config, predicted output, native output"""
    I = res['I']
    inp = scn.input_tree(res)
    complete_tree(I.grammar, inp)
    complete_tree(I.grammar, res['out'])
    extra = [cond] if cond is not None and cond is not True else []
    if not ctx.check(*extra):
        return None
    model = ctx.solver.model()
    if keep is not None:
        keep['model'] = model
    pr = Printer(I.P.defs, model, ctx)
    src = scn.print_input(pr, inp)
    cfg = res['cfgspec'].concrete(I, pr)
    pred = scn.print_output(pr, res['out'])
    nat = replay().rewrite(src, cfg, **scn.replay_kwargs(res, pr))
    st = res['H'].status().fields[0].variant
    st_name = ['modified', 'notmodified', 'cancelled'][st]
    w = {'input': src, 'config': cfg, 'predicted_output': pred, 'predicted_status': st_name, 'native': {k: nat.get(k) for k in ('ok', 'status', 'err', 'panic', 'instrumented_propagation', 'propagation_debug')}, 'native_output': nat.get('code')}
    # translator validation
    if st_name == 'cancelled':
        w['agree'] = (not nat.get('ok')) and not nat.get('panic')
        if not w['agree']:
            w['why'] = 'predicted cancelled, native: %s' % nat
        return w
    if not nat.get('ok'):
        w['agree'] = False
        w['why'] = 'native failed: %s' % nat.get('err')
        return w
    if nat['status'] != st_name:
        w['agree'] = False
        w['why'] = 'status native=%s predicted=%s' % (nat['status'], st_name)
        return w
    if st_name == 'notmodified':
        w['agree'] = True
        if hasattr(scn, 'extra_tv'):
            ok, why = scn.extra_tv(res, pr, nat)
            if not ok:
                w['agree'] = False
                w['why'] = why
        return w
    n1 = replay().normalize(pred)
    n2 = replay().normalize(nat['code'])
    if not n1.get('ok') or not n2.get('ok'):
        w['agree'] = False
        w['why'] = 'normalize failed: %s / %s' % (n1.get('err'), n2.get('err'))
        return w
    w['agree'] = norm_ws(n1['code']) == norm_ws(n2['code'])
    if not w['agree']:
        w['why'] = 'output differs'
        w['pred_norm'] = n1['code']
        w['nat_norm'] = n2['code']
        return w
    if hasattr(scn, 'extra_tv'):
        ok, why = scn.extra_tv(res, pr, nat)
        if not ok:
            w['agree'] = False
            w['why'] = why
            return w
    tel = res['H'].status().fields[2]
    if tel.variant in (0, 1):
        cnt = tel.fields[0].fields[0]
        if isinstance(cnt, z3.ExprRef):
            cnt = pr.ev(cnt)
        w['predicted_count'] = cnt
        if nat.get('instrumented_propagation') != cnt:
            w['agree'] = False
            w['why'] = 'telemetry native=%s predicted=%s' % (nat.get('instrumented_propagation'), cnt)
    return w


class AstChecks:
    """mixin: oracles over (input view, output view)"""

    def on_panic(self, I, ctx, err, replay):
        """a path of repository code ended in a panic: print the input reached so far and replay it natively"""
        role = 'panic/%s@%s' % (err.kind, err.site.split('/')[-1].split('>::')[-1])
        cfgspec = ctx.notes.get('cfgspec')
        try:
            inp = self.input_tree({'I': I})
            complete_tree(I.grammar, inp)
            if not ctx.check():
                return None
            pr = Printer(I.P.defs, ctx.solver.model(), ctx)
            src = self.print_input(pr, inp)
            cfg = cfgspec.concrete(I, pr)
            if getattr(self, 'literals_forced', False):
                cfg['literals'] = True
            nat = replay().rewrite(src, cfg)
            w = {'input': src, 'config': cfg, 'native': {k: nat.get(k) for k in ('ok', 'panic', 'err', 'crashed')}, 'agree': bool(nat.get('panic') or nat.get('crashed')), 'predicted_output': 'panic: %s' % err, 'native_output': json.dumps(nat)[:600]}
        except Exception as e:      # the witness could not be built: report without replay (never silently dropped)
            w = {'input': '?', 'agree': True, 'note': 'witness construction failed: %r' % (e,)}
        return {'prop': 'C13', 'role': role, 'detail': str(err), 'witness': w}

    def replay_kwargs(self, res, pr):
        return {}

    def print_input(self, pr, inp):
        return pr.block(inp)

    def print_output(self, pr, out):
        return pr.block(out)

    def oracles(self, I, ctx, res, inv, outv, er, erased):
        vs = []
        vs += O.check_C02(inv, er, erased)
        vs += O.check_C03(er, res['cfgspec'].terms)
        vs += O.check_C15_C12(outv, to_view(res['H'].status(), I.P.defs), O.count_hooks(outv), inv)
        vs += O.check_C15_debug(er, to_view(res['H'].status(), I.P.defs), outv, inv)
        vs += O.check_C05_names(er, res['cfgspec'].terms)
        vs += O.check_C06_block(outv, er) if isinstance(outv, dict) and outv.get('_t') == 'BlockStmt' else []
        vs += O.check_C06_program(outv, res['cfgspec'].prefix)
        vs += O.check_C06_collision(inv, outv, to_view(res['H'].status(), I.P.defs), res['cfgspec'].prefix)
        vs += O.check_C04(inv, outv, er, erased, res['cfgspec'].terms)
        vs += O.check_C01(inv, outv, res['cfgspec'].terms)
        vs += O.check_C09_spans(inv, outv, er)
        return vs, 9 + len(er.hooks)

    def check_path(self, I, ctx, res, replay, do_tv):
        defs = I.P.defs
        info = {'violations': [], 'tv': None, 'sample': None, 'obligations': 0}
        st = res['H'].status().fields[0].variant
        if st == 2:
            # cancelled: no output is produced
            info['cancelled'] = True
            if do_tv:
                w = witness(self, res, ctx, replay)
                info['tv'] = {'agree': bool(w and w['agree']), 'why': w and w.get('why'), 'input': w and w['input']}
            return info
        # model completion first: nodes the code never inspected are arbitrary; they are instantiated with the grammar's
        # first alternative (chosen to be the adversarial one where it matters, e.g. a string-literal statement at a
        # leading position), so that the oracles judge a fully determined input/output pair
        inp = self.input_tree(res)
        complete_tree(I.grammar, inp)
        complete_tree(I.grammar, res['out'])
        if not ctx.check():
            raise Unsupported('path condition unsatisfiable after model completion')
        inv = to_view(inp, defs)
        outv = to_view(res['out'], defs)
        er, erased = O.hooks_of(outv)
        info['hooks'] = len(er.hooks)
        vs, nob = self.oracles(I, ctx, res, inv, outv, er, erased)
        info['obligations'] = nob
        seen = set()
        for v in vs:
            if v.cond is False:
                continue
            if v.cond is not True and not ctx.check(v.cond):
                continue
            key = (v.prop, v.role)
            rec = {'prop': v.prop, 'role': v.role, 'detail': v.detail}
            if key not in seen:
                seen.add(key)
                w = witness(self, res, ctx, replay, v.cond)
                if w is None:
                    continue
                rec['witness'] = w
                if v.cond is not True:
                    s = z3.Solver()
                    s.add(ctx.solver.assertions())
                    s.add(v.cond)
                    rec['query'] = s.to_smt2()[:200000]
            info['violations'].append(rec)
        if do_tv:
            keep = {}
            w = witness(self, res, ctx, replay, keep=keep)
            if w is None:
                info['tv'] = {'agree': False, 'why': 'path condition unsat after completion'}
            else:
                info['tv'] = {'agree': w['agree'], 'why': w.get('why'), 'input': w['input'], 'pred': w.get('pred_norm'), 'nat': w.get('nat_norm')}
                info['sample'] = {'input': w['input'], 'output': w['predicted_output'], 'status': w['predicted_status'], 'hooks': len(er.hooks)}
                if getattr(self, 'v8', None) and w['agree'] and w['predicted_status'] == 'modified' and w.get('native_output') and zlib.crc32(w['input'].encode()) % self.v8 == 0:
                    info['v8'] = self.v8_validate(w, vs, keep['model'])
        # counterexamples of C01 are additionally run in V8 (informational: reported with the violation)
        if getattr(self, 'v8', None):
            for rec in info['violations']:
                w = rec.get('witness')
                if rec['prop'] == 'C01' and w and w.get('agree') and w.get('native_output'):
                    r = runner_v8().compare(w['input'], w['native_output'], self.v8_names())
                    w['v8'] = {k: r.get(k) for k in ('verdict', 'variant', 'in_event', 'out_event', 'in_outcome', 'out_outcome', 'why') if r.get(k) is not None}
        return info

    def v8_names(self):
        ep = getattr(self, 'ep', None)
        return [n for n in (ep.names if ep is not None else []) if not n.startswith('__datadog_')][:3] or None

    def v8_validate(self, w, vs, model):
        """semantic-model validation: the verdict of jsorder on this concrete witness against a differential run in V8"""
        model_differs = False
        for v in vs:
            if v.prop != 'C01' or v.cond is False:
                continue
            if v.cond is True or z3.is_true(model.eval(v.cond, model_completion=True)):
                model_differs = True
                break
        r = runner_v8().compare(w['input'], w['native_output'], self.v8_names())
        verdict = r.get('verdict')
        if verdict not in ('equal', 'differ'):
            return {'class': 'skipped', 'why': r.get('why')}
        if verdict == 'equal':
            return {'class': 'model_differs_v8_equal' if model_differs else 'agree_equal', 'input': w['input'] if model_differs else None, 'roles': sorted(set(v.role for v in vs if v.prop == 'C01'))[:3] if model_differs else None}
        if model_differs:
            return {'class': 'agree_differ'}
        return {'class': 'v8_differs_model_equal', 'input': w['input'], 'output': w['native_output'], 'v8': {k: r.get(k) for k in ('variant', 'at', 'in_event', 'out_event', 'in_outcome', 'out_outcome', 'in_log', 'out_log', 'in_prim', 'out_prim')}}


def runner_v8():
    import runner
    return runner._v8()


for _n in ('replay_kwargs', 'print_input', 'print_output', 'oracles', 'check_path', 'on_panic', 'v8_names', 'v8_validate'):
    setattr(AstChecksBase, _n, getattr(AstChecks, _n))


# ---------------------------------------------------------------------------------------------
# whole-program scenario

from grammars import StmtGrammar, StmtPolicy

PROLOGUE_JS = ';__PROLOGUE__;'


class ProgramScenario(AstChecksBase):
    """Symbolic Program (Script or Module) through BlockTransformVisitor::visit_mut_program
    (+ optionally LiteralVisitor through get_literals)."""

    def __init__(self, sp, cfgspec, kinds=('Script',), prologue=True, literals=False):
        self.sp = sp
        self.cfgspec = cfgspec
        self.kinds = list(kinds)
        self.prologue = prologue
        self.literals = literals

    def grammar(self, ctx, program):
        return StmtGrammar(ctx, program, self.sp)

    def prologue_stmts(self, g):
        P = g.P
        sd = P.defs['Stmt']
        ed = P.defs['Expr']
        sp = models.mkspan(7000, 7001)
        ident = Adt('Ident', None, [models.mkspan(7002, 7010), Adt('SyntaxContext', None, [0]), StrV('__PROLOGUE__'), False])
        return VecV([Adt('Stmt', sd.vindex('Empty'), [Adt('EmptyStmt', None, [sp])]),
                     Adt('Stmt', sd.vindex('Expr'), [Adt('ExprStmt', None, [models.mkspan(7002, 7011), Ptr(Cell(Adt('Expr', ed.vindex('Ident'), [ident])), (), 'box')])])])

    def make_program(self, g, materialise=False):
        P = g.P
        ctx = g.ctx
        pd = P.defs['Program']
        if len(self.kinds) > 1:
            key = 'var:PROGRAM'
            if key in ctx.decisions:
                kind = ctx.decisions[key]
            else:
                kind = self.kinds[ctx.choose([True] * len(self.kinds), 'program kind')]
                ctx.decisions[key] = kind
        else:
            kind = self.kinds[0]
        if materialise:
            body = materialise_input(g, 'Vec<Stmt>' if kind == 'Script' else 'Vec<ModuleItem>', 'P.body', (0, 0), (kind, 'body'))
        else:
            body = g.make('Vec<Stmt>' if kind == 'Script' else 'Vec<ModuleItem>', 'P.body', (0, 0), (kind, 'body'))
        inner = Adt(kind, None, [g.make_span('P.span', None), body, models.none()])
        return Adt('Program', pd.vindex(kind), [inner])

    def run(self, I):
        g = I.grammar
        c = self.cfgspec
        cfgspec = ConfigSpec(c.entries, c.prefix, c.verbosity, c.literals, c.comments, c.chain)
        cfg = cfgspec.build(I)
        if self.prologue:
            cfg.fields[I.P.defs['Config'].index('file_prefix_code')] = self.prologue_stmts(g)
        cfgspec.prologue_code = PROLOGUE_JS if self.prologue else None
        I.ctx.notes['cfgspec'] = cfgspec
        H = BlockHarness(I, cfg)
        prog = self.make_program(g)
        out = H.visit_program(prog)
        return {'out': out, 'H': H, 'cfgspec': cfgspec, 'I': I}

    def input_tree(self, res):
        return self.make_program(res['I'].grammar, materialise=True)

    def print_input(self, pr, inp):
        return self.print_program(pr, inp)

    def print_output(self, pr, out):
        return self.print_program(pr, out)

    def print_program(self, pr, p):
        s = pr.program(p)
        if pr.variant_name(p) == 'Module':
            s += '\nexport {};'
        return s

    def oracles(self, I, ctx, res, inv, outv, er, erased):
        vs = []
        vs += O.check_C02_program(inv, er, erased)
        vs += O.check_C03(er, res['cfgspec'].terms)
        vs += O.check_C15_C12(outv, to_view(res['H'].status(), I.P.defs), O.count_hooks(outv), inv)
        vs += O.check_C15_debug(er, to_view(res['H'].status(), I.P.defs), outv, inv)
        if self.prologue:
            vs += O.check_C12_program(inv, outv, to_view(res['H'].status(), I.P.defs))
        vs += O.check_C05_names(er, res['cfgspec'].terms)
        vs += O.check_C06_program(outv, res['cfgspec'].prefix)
        vs += O.check_C07(inv, outv)
        vs += O.check_C06_collision(inv, outv, to_view(res['H'].status(), I.P.defs), res['cfgspec'].prefix)
        vs += O.check_C04(inv, outv, er, erased, res['cfgspec'].terms)
        vs += O.check_C09_spans(inv, outv, er)
        return vs, 9 + len(er.hooks)


# ---------------------------------------------------------------------------------------------
# literal collection (C14)

class LiteralScenario(ProgramScenario):
    """visit_mut_program followed by the real get_literals (LiteralVisitor over the transformed tree)."""

    literals_forced = True

    def __init__(self, sp, cfgspec, kinds=('Script',), enabled=(True,)):
        ProgramScenario.__init__(self, sp, cfgspec, kinds, prologue=False)
        self.enabled = list(enabled)

    def run(self, I):
        res = ProgramScenario.run(self, I)
        ctx = I.ctx
        en = self.enabled[ctx.choose([True] * len(self.enabled), 'literals enabled')] if len(self.enabled) > 1 else self.enabled[0]
        compiler = Adt('Compiler', None, [Ptr(Cell(models.Opaque('SourceMap')), (), 'arc'), models.Opaque('SwcComments')])
        prog_cell = Cell(res['out'])
        lit = I.call_path('visitor::literal_visitor::get_literals', [en, StrV('test.js'), Ptr(prog_cell), Ptr(Cell(compiler))], None)
        res['literals'] = lit
        res['literals_enabled'] = en
        res['cfgspec'].literals = en
        return res

    def oracles(self, I, ctx, res, inv, outv, er, erased):
        vs, n = ProgramScenario.oracles(self, I, ctx, res, inv, outv, er, erased)
        vs += O.check_C14(inv, to_view(res['literals'], I.P.defs), res['literals_enabled'])
        return vs, n + 1

    def extra_tv(self, res, pr, nat):
        """the literal report predicted by mirsym (under the model) equals the native report: multiset of (value, ident)"""
        lv = to_view(res['literals'], res['I'].P.defs)
        nl = nat.get('literals')
        if lv is None or nl is None:
            return ((lv is None) == (nl is None)), 'literal report presence: predicted %s native %s' % (lv is not None, nl is not None)
        pred = []
        for info in lv['literals']:
            val = pr.s(StrV(info['value']))
            for loc in info['locations']:
                ident = loc['ident']
                pred.append((val, None if ident is None else pr.s(StrV(ident))))
        natl = []
        for info in nl['literals']:
            for loc in info['locations']:
                natl.append((info['value'], loc['ident']))
        if sorted(pred, key=repr) != sorted(natl, key=repr):
            return False, 'literal report differs: predicted %r native %r' % (sorted(pred, key=repr), sorted(natl, key=repr))
        return True, None


def order_free(v, defs):
    """view with hash containers replaced by order-independent (sorted) association lists"""
    if isinstance(v, models.SetV):
        items = [(to_view(k, defs), to_view(x, defs)) for k, x in zip(v.keys, v.vals)] if v.is_map else [(to_view(k, defs), None) for k in v.keys]
        return {'_t': 'HashContainer', 'entries': sorted(([order_free(a, defs), order_free(b, defs)] for a, b in items), key=repr)}
    if isinstance(v, dict):
        return {k: order_free(x, defs) for k, x in v.items()}
    if isinstance(v, (list, tuple)):
        return [order_free(x, defs) for x in v]
    return v


class DeterminismScenario(ProgramScenario):
    """C16: the same symbolic program through two fresh visitors (same configuration), the hash containers of the first
    iterated in insertion order, those of the second in the opposite order.  Status, telemetry and output tree must agree."""

    RUNS = 48

    def run(self, I):
        g = I.grammar
        g.order_mode = 'identity'
        res = ProgramScenario.run(self, I)
        g.order_mode = 'reversed'
        H2 = BlockHarness(I, res['H'].cfg_cell.v)
        prog2 = self.make_program(g)
        res['out2'] = H2.visit_program(prog2)
        res['H2'] = H2
        g.order_mode = 'identity'
        return res

    def check_path(self, I, ctx, res, replay, do_tv):
        defs = I.P.defs
        st1 = order_free(to_view(res['H'].status(), defs), defs)
        st2 = order_free(to_view(res['H2'].status(), defs), defs)
        c = O.tree_eq(st1, st2, ignore=())
        cancelled = res['H'].status().fields[0].variant == 2
        d = None
        if c is True and not cancelled:
            complete_tree(I.grammar, res['out'])
            complete_tree(I.grammar, res['out2'])
            o1, o2 = to_view(res['out'], defs), to_view(res['out2'], defs)
            c = O.tree_eq(o1, o2, ignore=())
            if c is not True:
                d = O.first_diff(o1, o2, ignore=())
        else:
            d = ('status / telemetry differ: %s' % O.first_diff(st1, st2, ignore=())) if c is not True else None
        if c is True or (c is not False and not ctx.check(O.neg(c))):
            info = AstChecks.check_path(self, I, ctx, res, replay, do_tv)
            info['obligations'] = info.get('obligations', 0) + 1
            return info
        # the two orders disagree: confirm natively (std's RandomState differs per container, so repeated calls vary)
        info = {'violations': [], 'tv': None, 'sample': None, 'obligations': 1}
        cond = True if c is False else O.neg(c)
        inp = self.input_tree(res)
        complete_tree(I.grammar, inp)
        if not ctx.check(*([] if cond is True else [cond])):
            return info
        pr = Printer(defs, ctx.solver.model(), ctx)
        src = self.print_input(pr, inp)
        cfg = res['cfgspec'].concrete(I, pr)
        seen = {}
        for _ in range(self.RUNS):
            nat = replay().rewrite(src, cfg)
            key = json.dumps([nat.get('ok'), nat.get('status'), nat.get('code'), nat.get('err')])
            seen[key] = seen.get(key, 0) + 1
        w = {'input': src, 'config': cfg, 'agree': len(seen) >= 2, 'predicted_output': 'two different results depending on hash iteration order (%s)' % d,
             'native_output': json.dumps(sorted(seen.items(), key=lambda kv: -kv[1]))[:1500], 'native': {'distinct_results_in_%d_calls' % self.RUNS: len(seen)}}
        info['violations'].append({'prop': 'C16', 'role': 'nondeterminism/result-depends-on-hash-iteration-order', 'detail': str(d), 'witness': w})
        return info


# ---------------------------------------------------------------------------------------------
# source-map discovery (C13 totality, C10 fallbacks, C16 order independence)

import rustdefs as _rd


class ExtractScenario:
    """extract_source_map(file, comments, reader) with nondeterministic reader / decoder stubs.
    Universe: file names, 0-2 trailing-comment buckets with 1-2 comments each (texts from a small universe),
    decode_data_url / read / decode return any result of their type (memoised per argument)."""

    FILES = ['', 'a.js', '/d/a.js', '/', 'd/']
    TEXTS = ['# sourceMappingURL=x.map', ' # sourceMappingURL=/abs/x.map ', '# sourceMappingURL=data:application/json;base64,e30=', '# sourceMappingURL=', 'plain comment']

    def __init__(self, max_buckets=2, per_bucket=(1, 2), texts=None):
        self.max_buckets = max_buckets
        self.per_bucket = list(per_bucket)
        if texts is not None:
            self.TEXTS = texts

    def grammar(self, ctx, program):
        return ExtractGrammar(ctx, program)

    def run(self, I):
        ctx = I.ctx
        P = I.P
        P.defs.setdefault('DecodedMap', _rd.EnumDef('DecodedMap', [('Regular', [('0', 'SourceMap')], 'tuple'), ('Index', [('0', 'SourceMapIndex')], 'tuple'), ('Hermes', [('0', 'SourceMapHermes')], 'tuple')], []))
        fi = ctx.choose([True] * len(self.FILES), 'file name')
        nb = ctx.choose([True] * (self.max_buckets + 1), 'buckets')
        buckets = []
        desc = []
        for b in range(nb):
            nc = self.per_bucket[ctx.choose([True] * len(self.per_bucket), 'comments in bucket %d' % b)] if len(self.per_bucket) > 1 else self.per_bucket[0]
            cs = []
            for c in range(nc):
                ti = ctx.choose([True] * len(self.TEXTS), 'text %d/%d' % (b, c))
                cs.append(Adt('Comment', None, [Adt('CommentKind', 0, []), models.mkspan(10 * b + c + 1, 10 * b + c + 2), StrV(self.TEXTS[ti])]))
                desc.append((b, self.TEXTS[ti]))
            buckets.append((Adt('BytePos', None, [100 * (b + 1)]), VecV(cs)))
        comments = Adt('SwcComments', None, [models.Opaque('leading'), Ptr(Cell(Adt('DashMap', None, [buckets])), (), 'arc')])
        reader = Adt('DefaultFileReader', None, [])
        file = self.FILES[fi]
        res = {'file': file, 'comments': desc, 'I': I}
        ctx.notes['extract_input'] = {'file': file, 'comments': desc}
        I.grammar.order_mode = 'identity'
        r1 = I.call_path('rewriter::extract_source_map', [StrV(file), Ptr(Cell(comments)), Ptr(Cell(reader))], None)
        res['r1'] = r1
        if nb >= 2:
            I.grammar.order_mode = 'reversed'
            r2 = I.call_path('rewriter::extract_source_map', [StrV(file), Ptr(Cell(comments)), Ptr(Cell(reader))], None)
            res['r2'] = r2
        return res

    def describe(self, res, I):
        return {'file': res['file'], 'comments': res['comments'], 'stubs': {k: v for k, v in I.ctx.notes.get('stub_log', [])}}

    def on_panic(self, I, ctx, err, replay):
        inp = ctx.notes.get('extract_input', {})
        # native replay: an instrumented statement (extract_source_map only runs for modified files) followed by the comments
        code = '{ a + b; }\n' + '\n'.join('//' + t for _b, t in inp.get('comments', []))
        cfg = {'methods': [{'src': 'plusOperator', 'operator': True}], 'comments': True, 'chain': True}
        nat = replay().rewrite(code, cfg, file=inp.get('file', 'test.js'))
        w = {'input': code, 'file': inp.get('file'), 'config': cfg, 'native': {k: nat.get(k) for k in ('ok', 'panic', 'err', 'crashed')},
             'agree': bool(nat.get('panic') or nat.get('crashed')), 'stubs': ctx.notes.get('stub_log', []), 'predicted_output': 'panic: %s' % err, 'native_output': json.dumps(nat)[:500]}
        return {'prop': 'C13', 'role': 'panic/%s@%s' % (err.kind, err.site.split('/')[0]), 'detail': '%s (file name %r)' % (err, inp.get('file')), 'witness': w}

    def check_path(self, I, ctx, res, replay, do_tv):
        info = {'violations': [], 'tv': None, 'sample': None, 'obligations': 2, 'hooks': 1}
        defs = I.P.defs
        r1 = to_view(res['r1'], defs)
        # C10: the returned map is Some only for a regular map that was decoded successfully
        src = r1['source']
        log = ctx.notes.get('stub_log', [])
        any_regular = any(v == 'Ok(Regular)' for _k, v in log)
        if src is not None and not any_regular:
            info['violations'].append({'prop': 'C10', 'role': 'extract/map-without-successful-decode', 'detail': json.dumps(self.describe(res, I)), 'witness': {'input': json.dumps(self.describe(res, I)), 'agree': True}})
        if 'r2' in res:
            r2 = to_view(res['r2'], defs)
            same = O.tree_eq(r1, r2, ignore=set())
            if same is not True:
                d = self.describe(res, I)
                w = self.native_order_witness(res, replay)
                info['violations'].append({'prop': 'C16', 'role': 'extract/result-depends-on-comment-iteration-order', 'detail': json.dumps(d), 'witness': w})
                info['violations'].append({'prop': 'C10', 'role': 'extract/result-depends-on-comment-iteration-order', 'detail': json.dumps(d), 'witness': w})
        info['sample'] = {'input': json.dumps(self.describe(res, I)), 'output': json.dumps(r1, default=str)[:300], 'status': 'n/a', 'hooks': 0}
        return info

    def native_order_witness(self, res, replay):
        return {'input': json.dumps({'file': res['file'], 'comments': res['comments']}), 'agree': True, 'note': 'order dependence shown on the MIR with the DashMap iteration order as a symbolic permutation; the native DashMap order is fixed by its hasher and cannot be steered from a test'}


class ExtractGrammar:
    """no symbolic AST; provides stubs and the iteration-order hook"""

    def __init__(self, ctx, program):
        self.ctx = ctx
        self.P = program
        self.interp = None
        self.order_mode = 'identity'
        self.stubs = {
            'decode_data_url': self.stub_decode_data_url,
            'sourcemap::decode_data_url': self.stub_decode_data_url,
            'decode': self.stub_decode,
            'sourcemap::decode': self.stub_decode,
            'File::open': self.stub_open,
        }

    def force(self, I, v):
        raise Unsupported('no lazy values in this scenario')

    def iteration_order(self, I, n, label):
        return list(range(n)) if self.order_mode == 'identity' else list(reversed(range(n)))

    def memo(self, key, alts, label):
        m = self.ctx.notes.setdefault('stub_memo', {})
        self.ctx.notes['stub_current'] = key
        if key not in m:
            i = self.ctx.choose([True] * len(alts), label)
            m[key] = alts[i]
            self.ctx.notes.setdefault('stub_log', []).append((key, alts[i]))
        return m[key]

    def result(self, tag):
        dm = self.P.defs['DecodedMap']
        if tag == 'Ok(Regular)':
            return models.ok(Adt('DecodedMap', 0, [models.Opaque('SourceMap', {'id': self.ctx.notes.get('stub_current')})]))
        if tag == 'Ok(Index)':
            return models.ok(Adt('DecodedMap', 1, [models.Opaque('SourceMapIndex')]))
        return models.err(models.Opaque('sourcemap::Error'))

    def stub_decode_data_url(self, I, info, args):
        url = models.as_str(I, args[0]).s
        return self.result(self.memo('decode_data_url(%s)' % url, ['Err', 'Ok(Regular)', 'Ok(Index)'], 'decode_data_url'))

    def stub_open(self, I, info, args):
        p = models._path_str(I, args[0])
        tag = self.memo('open(%s)' % p, ['Err', 'Ok'], 'File::open')
        if tag == 'Ok':
            return models.ok(models.Opaque('File', {'path': p}))
        return models.err(models.Opaque('io::Error'))

    def stub_decode(self, I, info, args):
        f = args[0]
        p = f.data.get('path') if isinstance(f, models.Opaque) else '?'
        return self.result(self.memo('decode(%s)' % p, ['Err', 'Ok(Regular)', 'Ok(Index)'], 'decode'))


# ---------------------------------------------------------------------------------------------
# transform_js: status vs returned content (C12), through the real glue code

class TransformScenario(ProgramScenario):
    """rewriter::transform_js(program, file, reader, config, compiler) with Compiler::print as an uninterpreted function"""

    def grammar(self, ctx, program):
        g = ProgramScenario.grammar(self, ctx, program)
        g.stubs = dict(g.stubs)
        g.stubs['Compiler::print'] = self.stub_print
        g.stubs['Compiler::comments'] = self.stub_comments
        g.print_calls = []
        self._g = g
        return g

    def stub_print(self, I, info, args):
        g = I.grammar
        prog = models.deref(args[1])
        pa = args[2]
        g.print_calls.append({'program': prog, 'args': pa})
        out = Adt('TransformOutput', None, [StrV(I.ctx.var('printed_code', z3.StringSort())), models.some(StrV(I.ctx.var('printed_map', z3.StringSort()))), models.none()])
        return models.ok(out)

    def stub_comments(self, I, info, args):
        comments = Adt('SwcComments', None, [models.Opaque('leading'), Ptr(Cell(Adt('DashMap', None, [[]])), (), 'arc')])
        return Ptr(Cell(comments))

    def run(self, I):
        g = I.grammar
        P = I.P
        P.defs.setdefault('PrintArgs', _rd.StructDef('PrintArgs', [(n, '?') for n in ('source_root', 'source_file_name', 'output_path', 'inline_sources_content', 'source_map', 'source_map_names', 'orig', 'comments', 'emit_source_map_columns', 'preamble', 'codegen_config', 'output')], False, []))
        P.defs.setdefault('TransformOutput', _rd.StructDef('TransformOutput', [('code', 'String'), ('map', 'Option<String>'), ('output', 'Option<String>')], False, []))
        P.defs.setdefault('DecodedMap', _rd.EnumDef('DecodedMap', [('Regular', [('0', 'SourceMap')], 'tuple'), ('Index', [('0', 'SourceMapIndex')], 'tuple'), ('Hermes', [('0', 'SourceMapHermes')], 'tuple')], []))
        c = self.cfgspec
        cfgspec = ConfigSpec(c.entries, c.prefix, c.verbosity, c.literals, c.comments, c.chain)
        cfg = cfgspec.build(I)
        if self.prologue:
            cfg.fields[P.defs['Config'].index('file_prefix_code')] = self.prologue_stmts(g)
        cfgspec.prologue_code = PROLOGUE_JS if self.prologue else None
        prog = self.make_program(g)
        compiler = Adt('Compiler', None, [Ptr(Cell(models.Opaque('SourceMap')), (), 'arc'), models.Opaque('SwcComments')])
        reader = Adt('DefaultFileReader', None, [])
        cfg_cell = Cell(cfg)
        r = I.call_path('rewriter::transform_js', [prog, StrV('dir/test.js'), Ptr(Cell(reader)), Ptr(cfg_cell), Ptr(Cell(compiler))], None)
        return {'result': r, 'cfgspec': cfgspec, 'I': I, 'prints': g.print_calls}

    def check_path(self, I, ctx, res, replay, do_tv):
        info = {'violations': [], 'tv': None, 'sample': None, 'obligations': 4, 'hooks': 0}
        defs = I.P.defs
        r = res['result']
        prints = res['prints']

        def vio(role, cond, detail, prop='C12'):
            if cond is False:
                return
            if cond is not True and not ctx.check(cond):
                return
            info['violations'].append({'prop': prop, 'role': role, 'detail': detail, 'witness': {'input': detail, 'agree': True, 'note': 'glue-level obligation on transform_js (Compiler::print stubbed); no native replay'}})

        if r.variant == 1:
            # Err: only for cancelled rewrites
            if prints:
                vio('transform/print-called-for-error-result', True, 'Compiler::print was called although the result is Err')
            info['sample'] = {'input': 'Err (cancelled)', 'output': '', 'status': 'cancelled', 'hooks': 0}
            return info
        out = to_view(r.fields[0], defs)
        ts = out['transform_status']
        st = ['Modified', 'NotModified', 'Cancelled'][ts['status']['_d']] if ts is not None else None
        code, smap = out['code'], out['source_map']
        if st is None:
            vio('transform/status-missing', True, '')
        if st == 'Cancelled':
            vio('transform/cancelled-returned-as-ok', True, '')
        if st == 'NotModified':
            info['hooks'] = 0
            if prints:
                vio('transform/print-called-for-unmodified', True, 'the program was printed although nothing was instrumented')
            vio('transform/unmodified-with-code', O.neg(O.leaf_eq(code, '')), 'code = %s' % (code,))
            vio('transform/unmodified-with-map', O.neg(O.leaf_eq(smap, '')), 'source_map = %s' % (smap,))
            if out['original_source_map']['source'] is not None or out['original_source_map']['source_map_comment'] is not None:
                vio('transform/unmodified-with-original-map', True, '')
        if st == 'Modified':
            info['hooks'] = 1
            if len(prints) != 1:
                vio('transform/modified-printed-%d-times' % len(prints), True, '')
            else:
                vio('transform/modified-code-is-not-the-printed-code', O.neg(O.leaf_eq(code, ctx.vars['printed_code'])), 'code = %s' % (code,))
                vio('transform/modified-map-is-not-the-printed-map', O.neg(O.leaf_eq(smap, ctx.vars['printed_map'])), 'map = %s' % (smap,))
                pv = to_view(prints[0]['program'], defs)
                nh = O.count_hooks(pv)
                if nh == 0:
                    vio('transform/modified-without-hook-in-printed-program', True, '')
                if self.prologue:
                    body = O.program_body(pv)
                    npro = len([s for s in body if O.is_prologue_stmt(s)]) if not O.is_lazy(body) else 2
                    if npro != 2:
                        vio('prologue/missing-or-duplicated', True, 'the printed program of a modified file holds %d of the 2 prologue statements (verbosity %s)' % (npro, getattr(res['cfgspec'], 'verbosity_chosen', res['cfgspec'].verbosity)))
                pa = to_view(prints[0]['args'], defs)
                fn = pa.get('source_file_name')
                if fn is None or O.leaf_eq(fn, res.get('file', 'dir/test.js').split('/')[-1]) is not True:
                    vio('transform/source-file-name-is-not-the-base-name', True, 'source_file_name = %s' % (fn,), 'C09')
                if pa.get('emit_source_map_columns') is not True:
                    vio('transform/column-mappings-disabled', True, '', 'C09')
        info['sample'] = {'input': 'status %s' % st, 'output': 'prints=%d' % len(prints), 'status': st, 'hooks': info['hooks']}
        return info


class RewriteScenario(TransformScenario):
    """rewriter::rewrite_js(code, file, config, reader): the public entry point.  swc's compiler is stubbed: `try_with_handler`
    runs the closure with an opaque handler, `SourceMap::new_source_file` records the FileName it is given, `Compiler::parse_js`
    returns either an error or the symbolic program, `Compiler::print` as in TransformScenario.
    Contract of swc's source-map builder taken as given (swc_compiler_base::SwcSourceMapConfig::skip, used by Compiler::print):
    positions of a file whose name is `FileName::Internal(..)` or `FileName::Custom(s)` with s starting with '<' produce NO
    mappings."""

    FILES = ['dir/test.js', 'test.js', '<anonymous>', 'dir/we\\ird.js']

    def grammar(self, ctx, program):
        g = TransformScenario.grammar(self, ctx, program)
        g.stubs['Compiler::new'] = lambda I, info, args: Adt('Compiler', None, [Ptr(Cell(models.Opaque('SourceMap')), (), 'arc'), models.Opaque('SwcComments')])
        g.stubs['SourceMap::new'] = lambda I, info, args: models.Opaque('SourceMap')
        g.stubs['FilePathMapping::empty'] = lambda I, info, args: models.Opaque('FilePathMapping')
        g.stubs['try_with_handler'] = self.stub_with_handler
        g.stubs['SourceMap::new_source_file'] = self.stub_new_source_file
        g.stubs['new_source_file'] = self.stub_new_source_file
        g.stubs['Compiler::parse_js'] = self.stub_parse_js
        g.stubs['EsVersion::latest'] = lambda I, info, args: models.Opaque('EsVersion::latest')
        g.source_files = []
        g.parse_outcome = None
        return g

    def stub_with_handler(self, I, info, args):
        return I.call_closure(args[2], [Ptr(Cell(models.Opaque('Handler')))])

    def stub_new_source_file(self, I, info, args):
        name = models.deref(args[1])
        I.grammar.source_files.append(name)
        return Ptr(Cell(models.Opaque('SourceFile', {'id': len(I.grammar.source_files)})), (), 'arc')

    def stub_parse_js(self, I, info, args):
        g = I.grammar
        ok = [True, False][I.ctx.choose([True, True], 'parse_js: Ok | Err')]
        g.parse_outcome = ok
        if not ok:
            return models.err(models.Opaque('anyhow::Error', {'what': 'syntax error'}))
        return models.ok(self.make_program(g))

    def run(self, I):
        g = I.grammar
        P = I.P
        P.defs.setdefault('PrintArgs', _rd.StructDef('PrintArgs', [(n, '?') for n in ('source_root', 'source_file_name', 'output_path', 'inline_sources_content', 'source_map', 'source_map_names', 'orig', 'comments', 'emit_source_map_columns', 'preamble', 'codegen_config', 'output')], False, []))
        P.defs.setdefault('TransformOutput', _rd.StructDef('TransformOutput', [('code', 'String'), ('map', 'Option<String>'), ('output', 'Option<String>')], False, []))
        P.defs.setdefault('DecodedMap', _rd.EnumDef('DecodedMap', [('Regular', [('0', 'SourceMap')], 'tuple'), ('Index', [('0', 'SourceMapIndex')], 'tuple'), ('Hermes', [('0', 'SourceMapHermes')], 'tuple')], []))
        c = self.cfgspec
        cfgspec = ConfigSpec(c.entries, c.prefix, c.verbosity, c.literals, c.comments, c.chain)
        cfg = cfgspec.build(I)
        if self.prologue:
            cfg.fields[P.defs['Config'].index('file_prefix_code')] = self.prologue_stmts(g)
        cfgspec.prologue_code = PROLOGUE_JS if self.prologue else None
        file = self.FILES[I.ctx.choose([True] * len(self.FILES), 'file name')]
        reader = Adt('DefaultFileReader', None, [])
        r = I.call_path('rewriter::rewrite_js', [StrV(I.ctx.var('source_text', z3.StringSort())), StrV(file), Ptr(Cell(cfg)), Ptr(Cell(reader))], None)
        return {'result': r, 'cfgspec': cfgspec, 'I': I, 'prints': g.print_calls, 'file': file, 'source_files': g.source_files, 'parse_ok': g.parse_outcome}

    def check_path(self, I, ctx, res, replay, do_tv):
        g = I.grammar
        r = res['result']
        if res['parse_ok'] is False:
            info = {'violations': [], 'tv': None, 'sample': {'input': 'parse error', 'output': 'Err' if r.variant == 1 else 'Ok', 'status': 'n/a', 'hooks': 0}, 'obligations': 2, 'hooks': 0}
            if r.variant != 1:
                info['violations'].append({'prop': 'C13', 'role': 'rewrite/parse-error-not-returned-as-error', 'detail': 'parse_js failed but rewrite_js returned Ok', 'witness': {'input': 'parse error', 'agree': True, 'note': 'glue-level obligation on rewrite_js (swc stubbed)'}})
            if res['prints']:
                info['violations'].append({'prop': 'C12', 'role': 'rewrite/printed-after-parse-error', 'detail': '', 'witness': {'input': 'parse error', 'agree': True, 'note': 'glue-level obligation on rewrite_js (swc stubbed)'}})
            return info
        info = TransformScenario.check_path(self, I, ctx, res, replay, do_tv)
        info['obligations'] += 2
        defs = I.P.defs
        file = res['file']
        for v in info['violations']:
            if v['role'] == 'transform/source-file-name-is-not-the-base-name':
                # confirm natively: the `sources` entry of the produced map must be the base name of the file
                src = 'function f(a, b) { return a + b; }'
                nat = replay().rewrite(src, {'methods': [{'src': 'plusOperator', 'operator': True}]}, file=file)
                srcs = json.loads(nat['source_map']).get('sources') if nat.get('ok') and nat.get('source_map') else None
                v['witness'] = {'input': src, 'file': file, 'agree': srcs is not None and srcs != [file.split('/')[-1]], 'predicted_output': 'sources != [%r]' % file.split('/')[-1], 'native_output': json.dumps(srcs), 'native': {'ok': nat.get('ok'), 'sources': srcs}}
        sfs = res['source_files']
        if len(sfs) != 1:
            info['violations'].append({'prop': 'C09', 'role': 'rewrite/input-registered-%d-times' % len(sfs), 'detail': '', 'witness': {'input': file, 'agree': True, 'note': 'glue-level obligation'}})
            return info
        fv = to_view(sfs[0], defs)
        kindv = fv.get('_v') if isinstance(fv, dict) else None
        payload0 = fv.get('_0') if isinstance(fv, dict) else None
        name = None
        if isinstance(payload0, dict) and '_fields' in payload0:
            name = payload0['_fields'][0]
        elif isinstance(payload0, (str, z3.ExprRef)):
            name = payload0
        skipped = kindv == 'Internal' or (kindv == 'Custom' and isinstance(name, str) and name.startswith('<'))
        if skipped:
            nat = replay().rewrite('function f(a, b) { return a + b; }', {'methods': [{'src': 'plusOperator', 'operator': True}]}, file=file)
            nm = len(decode_mappings(json.loads(nat['source_map']).get('mappings', ''))) if nat.get('ok') and nat.get('source_map') else None
            info['violations'].append({'prop': 'C09', 'role': 'map/input-file-registered-under-a-name-the-map-builder-skips:%s' % kindv, 'detail': 'file %r is registered as FileName::%s(%r): swc emits no mapping for such a file' % (file, kindv, name),
                                       'witness': {'input': 'function f(a, b) { return a + b; }', 'file': file, 'agree': nm == 0, 'predicted_output': 'a source map without mappings', 'native_output': nat.get('source_map'), 'native': {'ok': nat.get('ok'), 'mappings': nm}}})
        elif kindv == 'Real' and name is not None and O.leaf_eq(name, file) is not True:
            info['violations'].append({'prop': 'C09', 'role': 'rewrite/input-registered-under-a-different-path', 'detail': 'file %r registered as %r' % (file, name), 'witness': {'input': file, 'agree': True, 'note': 'glue-level obligation'}})
        return info


# ---------------------------------------------------------------------------------------------
# chain_source_maps (C10a): token-by-token re-targeting through the original map

class ChainScenario:
    """chain_source_maps(rewrite_map_json, &Option<original map>, config) with the sourcemap crate as nondeterministic stubs:
    the rewrite map has 1..N tokens with symbolic (dst_line, dst_col, src_line, src_col); lookup_token on the original map
    returns None or a token with symbolic position, optional source (universe of 2) and optional name (universe of 2)."""

    def __init__(self, max_tokens=2):
        self.max_tokens = max_tokens

    def grammar(self, ctx, program):
        return ChainGrammar(ctx, program, self.max_tokens)

    def run(self, I):
        ctx = I.ctx
        g = I.grammar
        chain = [True, False][ctx.choose([True, True], 'config.chain_source_map')]
        comments = [False, True][ctx.choose([True, True], 'config.print_comments')]
        has_orig = [True, False][ctx.choose([True, True], 'original map present')]
        csi = mk_csi_methods(I, [])
        cfg = mk_config(I, csi, chain=chain, comments=comments)
        orig = models.some(models.Opaque('SourceMap', {'id': 'original'})) if has_orig else models.none()
        r = I.call_path('rewriter::chain_source_maps', [StrV('{"rewrite-map"}'), Ptr(Cell(orig)), Ptr(Cell(cfg))], None)
        return {'result': r, 'chain': chain, 'has_orig': has_orig, 'I': I}

    def check_path(self, I, ctx, res, replay, do_tv):
        g = I.grammar
        info = {'violations': [], 'tv': None, 'sample': None, 'obligations': 0, 'hooks': 1 if g.raw else 0}
        r = models.deref(res['result'])
        desc = {'chain': res['chain'], 'original_map': res['has_orig'], 'parse_ok': g.parse_ok, 'tokens': len(g.tokens), 'lookups': [(str(k), 'hit' if v is not None else 'miss') for k, v in g.lookups], 'raw': len(g.raw), 'sources': [str(s) for s in g.sources], 'names': [str(s) for s in g.names]}

        def vio(role, cond, detail):
            info['obligations'] += 1
            if cond is False:
                return
            if cond is not True and not ctx.check(cond):
                return
            w = {'input': json.dumps(desc), 'agree': True, 'note': 'obligation on chain_source_maps with the sourcemap crate stubbed (no native replay possible for stub results)'}
            if cond is not True:
                ctx.check(cond)
                m = ctx.solver.model()
                w['model'] = {str(d): str(m[d]) for d in m.decls()}
            info['violations'].append({'prop': 'C10', 'role': role, 'detail': detail, 'witness': w})

        should = res['chain'] and res['has_orig'] and g.parse_ok is True and g.write_ok is not False
        if r.variant == 1 and not should:
            vio('chain/map-produced-without-chaining-preconditions', True, json.dumps(desc))
        if r.variant == 0 and should:
            vio('chain/no-map-although-chaining-possible', True, json.dumps(desc))
        if r.variant == 1 and should:
            # every rewrite token with a hit yields exactly one raw entry, in order
            hits = [(tok, g.lookup_result(tok)) for tok in g.tokens[:g.consumed]]
            exp = [(tok, h) for tok, h in hits if h is not None]
            if len(exp) != len(g.raw):
                vio('chain/raw-entry-count', True, '%d hits, %d raw entries' % (len(exp), len(g.raw)))
            else:
                for i, ((tok, h), raw) in enumerate(zip(exp, g.raw)):
                    want = [('dst_line', tok['dst_line']), ('dst_col', tok['dst_col']), ('src_line', h['src_line']), ('src_col', h['src_col'])]
                    for (n, w_), got in zip(want, raw[:4]):
                        c = O.leaf_eq(w_, got)
                        if c is not True:
                            vio('chain/raw-%s-differs' % n, O.neg(c), 'token %d: %s expected %s got %s' % (i, n, w_, got))
                    # source index
                    for kind_, hk, lst, gi in (('source', 'source', g.sources, raw[4]), ('name', 'name', g.names, raw[5])):
                        hv = h[hk]
                        if hv is None:
                            if gi is not None:
                                vio('chain/%s-index-for-token-without-%s' % (kind_, kind_), True, 'token %d carries %s index %s but the original token has no %s' % (i, kind_, gi, kind_))
                        else:
                            if gi is None:
                                vio('chain/%s-dropped' % kind_, True, 'token %d: original token has a %s, none recorded' % (i, kind_))
                            else:
                                gi_c = I.concretize_int(gi)
                                if gi_c >= len(lst):
                                    vio('chain/%s-index-out-of-range' % kind_, True, '')
                                else:
                                    c = O.leaf_eq(lst[gi_c], hv)
                                    if c is not True:
                                        vio('chain/%s-index-points-to-other-%s' % (kind_, kind_), O.neg(c), 'token %d: index %d is %s, expected %s' % (i, gi_c, lst[gi_c], hv))
                    if raw[6] is not False:
                        vio('chain/is-range-set', True, '')
            # dedup: equal strings share an index (no two table entries may be equal)
            for kind_, lst in (('source', g.sources), ('name', g.names)):
                for a in range(len(lst)):
                    for b in range(a + 1, len(lst)):
                        c = O.leaf_eq(lst[a], lst[b])
                        if c is not False:
                            vio('chain/%s-table-duplicate' % kind_, c, '%s table has entries %d and %d that can be equal' % (kind_, a, b))
        rs = getattr(g, 'root_set', None)
        if rs is not None and isinstance(rs, Adt) and rs.ty == 'Option' and rs.variant == 1:
            # the sources handed to the builder already carry the original map's sourceRoot (contract of the sourcemap crate):
            # giving the builder that root as well applies it twice when the emitted map is decoded
            import base64 as _b64
            omap = {'version': 3, 'file': 'test.js', 'sourceRoot': '../src', 'sources': ['lib/a.ts'], 'names': [], 'mappings': 'AAAA;AACA;AACA'}
            code = 'function add(a, b) {\n  return a + b;\n}\n//# sourceMappingURL=data:application/json;base64,' + _b64.b64encode(json.dumps(omap).encode()).decode()
            nat = replay().rewrite(code, {'methods': [{'src': 'plusOperator', 'operator': True}], 'chain': True, 'comments': True})
            srcs = None
            try:
                trailer = nat['content'].rsplit('base64,', 1)[1].strip()
                m = json.loads(_b64.b64decode(trailer))
                srcs = [(m.get('sourceRoot') or '') and (m.get('sourceRoot').rstrip('/') + '/' + s) or s for s in m.get('sources', [])]
            except Exception:
                pass
            info['violations'].append({'prop': 'C10', 'role': 'chain/source-root-applied-twice', 'detail': 'the chained map is given the original sourceRoot although its sources already carry it',
                                       'witness': {'input': code, 'agree': bool(srcs) and any('../src/../src' in s for s in srcs), 'predicted_output': 'sources resolve to ../src/../src/lib/a.ts', 'native_output': json.dumps(srcs), 'native': {'ok': nat.get('ok')}}})
        info['sample'] = {'input': json.dumps(desc), 'output': 'Some' if r.variant == 1 else 'None', 'status': 'n/a', 'hooks': len(g.raw)}
        return info


class ChainGrammar:
    def __init__(self, ctx, program, max_tokens):
        self.ctx = ctx
        self.P = program
        self.interp = None
        self.max_tokens = max_tokens
        self.tokens = []
        self.consumed = 0
        self.lookups = []
        self.raw = []
        self.sources = []
        self.names = []
        self.parse_ok = None
        self.write_ok = None
        self.stubs = {
            'SourceMap::from_reader': self.stub_from_reader,
            'SourceMap::tokens': self.stub_tokens,
            'TokenIter::next': None,
            'SourceMap::lookup_token': self.stub_lookup,
            'Token::get_src_line': self.tok_field('src_line'), 'Token::get_src_col': self.tok_field('src_col'),
            'Token::get_dst_line': self.tok_field('dst_line'), 'Token::get_dst_col': self.tok_field('dst_col'),
            'Token::has_source': lambda I, info, args: models.deref(args[0]).data['source'] is not None,
            'Token::has_name': lambda I, info, args: models.deref(args[0]).data['name'] is not None,
            'Token::get_source': lambda I, info, args: models.none() if models.deref(args[0]).data['source'] is None else models.some(StrV(models.deref(args[0]).data['source'])),
            'Token::get_name': lambda I, info, args: models.none() if models.deref(args[0]).data['name'] is None else models.some(StrV(models.deref(args[0]).data['name'])),
            'SourceMapBuilder::new': lambda I, info, args: models.Opaque('SourceMapBuilder', {'g': id(self)}),
            'SourceMapBuilder::add_source': self.stub_add('sources'),
            'SourceMapBuilder::add_name': self.stub_add('names'),
            'SourceMapBuilder::add_raw': self.stub_add_raw,
            'SourceMapBuilder::into_sourcemap': lambda I, info, args: models.Opaque('SourceMap', {'id': 'chained'}),
            'SourceMap::to_writer': self.stub_to_writer,
            'String::from_utf8': lambda I, info, args: models.ok(StrV('{"chained-map"}')),
            # sourcemap 8: Token::get_source() / SourceMap::get_source() return the source WITH the map's sourceRoot applied
            'SourceMap::get_source_root': self.stub_get_source_root,
            'SourceMapBuilder::set_source_root': self.stub_set_source_root,
        }
        self.root_set = None
        del self.stubs['TokenIter::next']

    def stub_get_source_root(self, I, info, args):
        return [models.none(), models.some(StrV('../src'))][self.ctx.choose([True, True], 'original map: sourceRoot absent | relative')]

    def stub_set_source_root(self, I, info, args):
        v = models.opt_force(I, args[1]) if isinstance(models.deref(args[1]), Adt) else args[1]
        self.root_set = v
        return V_UNIT

    def force(self, I, v):
        raise Unsupported('no lazy values in this scenario')

    def bv(self, name):
        return self.ctx.var(name, z3.BitVecSort(32))

    def stub_from_reader(self, I, info, args):
        ok = self.ctx.choose([True, True], 'SourceMap::from_reader') == 0
        self.parse_ok = ok
        if not ok:
            return models.err(models.Opaque('sourcemap::Error'))
        n = 1 + (self.ctx.choose([True] * self.max_tokens, 'number of rewrite-map tokens') if self.max_tokens > 1 else 0)
        self.tokens = [{'dst_line': self.bv('t%d.dst_line' % i), 'dst_col': self.bv('t%d.dst_col' % i), 'src_line': self.bv('t%d.src_line' % i), 'src_col': self.bv('t%d.src_col' % i)} for i in range(n)]
        return models.ok(models.Opaque('SourceMap', {'id': 'rewrite'}))

    def stub_tokens(self, I, info, args):
        toks = [models.Opaque('Token', dict(t, source=None, name=None, idx=i)) for i, t in enumerate(self.tokens)]

        def gen():
            for t in toks:
                self.consumed += 1
                yield t
        return models.IterV(gen())

    def tok_field(self, f):
        def fn(I, info, args):
            return models.deref(args[0]).data[f]
        return fn

    def lookup_result(self, tok):
        for k, v in self.lookups:
            if k == (str(tok['src_line']), str(tok['src_col'])):
                return v
        return None

    def stub_lookup(self, I, info, args):
        line, col = args[1], args[2]
        key = (str(line), str(col))
        for k, v in self.lookups:
            if k == key:
                return models.none() if v is None else models.some(models.Opaque('Token', v))
        i = len(self.lookups)
        hit = self.ctx.choose([True, True], 'lookup_token #%d' % i) == 0
        if not hit:
            self.lookups.append((key, None))
            return models.none()
        tok = {'src_line': self.bv('o%d.src_line' % i), 'src_col': self.bv('o%d.src_col' % i), 'dst_line': self.bv('o%d.dst_line' % i), 'dst_col': self.bv('o%d.dst_col' % i), 'source': None, 'name': None}
        if self.ctx.choose([True, True], 'original token #%d has source' % i) == 0:
            s = self.ctx.var('o%d.source' % i, z3.StringSort())
            if s.get_id() not in self.ctx.dom:
                self.ctx.set_domain(s, ['a.ts', 'b.ts'])
                self.ctx.add(z3.Or(s == z3.StringVal('a.ts'), s == z3.StringVal('b.ts')), dom=False)
            tok['source'] = s
        if self.ctx.choose([True, True], 'original token #%d has name' % i) == 0:
            s = self.ctx.var('o%d.name' % i, z3.StringSort())
            if s.get_id() not in self.ctx.dom:
                self.ctx.set_domain(s, ['f', 'g'])
                self.ctx.add(z3.Or(s == z3.StringVal('f'), s == z3.StringVal('g')), dom=False)
            tok['name'] = s
        self.lookups.append((key, tok))
        return models.some(models.Opaque('Token', tok))

    def stub_add(self, which):
        def fn(I, info, args):
            lst = getattr(self, which)
            s = models.as_str(I, args[1])
            # sourcemap::SourceMapBuilder::add_source / add_name return the id of an existing equal entry
            for i, x in enumerate(lst):
                if models.to_bool(I, models.sym_eq(I, StrV(x), s), 'builder.%s dedup' % which):
                    return i
            lst.append(s.s)
            return len(lst) - 1
        return fn

    def stub_add_raw(self, I, info, args):
        def optv(o):
            o = models.opt_force(I, o)
            return None if o.variant == 0 else o.fields[0]
        self.raw.append((args[1], args[2], args[3], args[4], optv(args[5]), optv(args[6]), args[7]))
        return models.Opaque('RawToken')

    def stub_to_writer(self, I, info, args):
        ok = self.ctx.choose([True, True], 'SourceMap::to_writer') == 0
        self.write_ok = ok
        return models.ok(V_UNIT) if ok else models.err(models.Opaque('sourcemap::Error'))


from values import UNIT as V_UNIT


# ---------------------------------------------------------------------------------------------
# print_js (C10c): removal of the superseded comment and the inline trailer -- queries discharged by cvc5

import subprocess
import tempfile


def cvc5_check(assertions, timeout_s=60):
    """-> ('sat', model dict) | ('unsat', None) | ('unknown', text)"""
    s = z3.Solver()
    s.add(assertions)
    text = s.to_smt2()
    text = '(set-logic ALL)\n(set-option :produce-models true)\n(set-option :strings-exp true)\n' + '\n'.join(l for l in text.split('\n') if not l.startswith('(set-info')) + '\n(get-model)\n'
    with tempfile.NamedTemporaryFile('w', suffix='.smt2', delete=False, dir='/tmp') as f:
        f.write(text)
        path = f.name
    try:
        r = subprocess.run(['cvc5', '--lang', 'smt2', '--tlimit=%d' % (timeout_s * 1000), path], capture_output=True, text=True, timeout=timeout_s + 10)
    except subprocess.TimeoutExpired:
        return 'unknown', 'timeout'
    finally:
        try:
            if os.environ.get('VERIF_KEEP_SMT'):
                os.replace(path, '/tmp/last_cvc5_query.smt2')
            else:
                os.unlink(path)
        except OSError:
            pass
    out = r.stdout.strip()
    if not out:
        return 'unknown', 'no answer within %ds: %s' % (timeout_s, r.stderr.strip()[:300])
    if out.startswith('unsat'):
        # (the trailing get-model then reports an error, which is expected)
        return 'unsat', None
    if '(error' in out or '(error' in r.stderr:
        return 'unknown', (out + r.stderr)[:500]
    if out.startswith('sat'):
        model = {}
        for m in re.finditer(r'\(define-fun (\|[^|]*\||\S+) \(\) (\w+) ("(?:[^"]|"")*"|true|false|\(?-? ?\d+\)?)\)', out):
            name = m.group(1).strip('|')
            val = m.group(3)
            if val.startswith('"'):
                val = val[1:-1].replace('""', '"')
                val = re.sub(r'\\u\{([0-9a-fA-F]+)\}', lambda mm: chr(int(mm.group(1), 16)), val)
            elif val in ('true', 'false'):
                val = val == 'true'
            else:
                val = int(val.replace('(', '').replace(')', '').replace(' ', ''))
            model[name] = val
        return 'sat', model
    return 'unknown', out[:500]


import os


class PrintScenario:
    """rewriter::print_js(code, source_map, original_source_map, config) with symbolic strings.
    Precondition encoded: when a superseded comment `c` is present, the printed code has the form pre ++ "//" ++ c ++ post
    (that occurrence is the comment), c starts with `# sourceMappingURL=` and has no line break; everything else arbitrary
    (bounded lengths)."""

    def __init__(self, max_len=24):
        self.max_len = max_len

    def grammar(self, ctx, program):
        return ExtractGrammar(ctx, program)

    def run(self, I):
        ctx = I.ctx
        comments = [True, False][ctx.choose([True, True], 'config.print_comments')]
        has_comment = [True, False][ctx.choose([True, True], 'superseded comment present')]
        style = ['line', 'block'][ctx.choose([True, True], 'comment style: line | block')] if has_comment else 'line'
        opener, closer = {'line': ('//', ''), 'block': ('/*', '*/')}[style]
        nonempty_map = [True, False][ctx.choose([True, True], 'source map non-empty')]
        S = z3.StringSort()
        pre, post, tail = ctx.var('pre', S), ctx.var('post', S), ctx.var('tail', S)
        code = ctx.var('code', S)
        smap = ctx.var('source_map', S)
        cterm = None
        if has_comment:
            cterm = z3.Concat(z3.StringVal('# sourceMappingURL='), tail)
            ctx.add(z3.And(code == z3.Concat(pre, z3.StringVal(opener), cterm, z3.StringVal(closer), post), z3.Length(pre) <= self.max_len, z3.Length(post) <= 4, z3.Length(tail) <= 3, z3.Not(z3.Contains(tail, z3.StringVal('\n'))), z3.Not(z3.Contains(tail, z3.StringVal('*')))), dom=False)
        else:
            ctx.add(z3.Length(code) <= self.max_len, dom=False)
        ctx.add((z3.Length(smap) > 0) if nonempty_map else (smap == z3.StringVal('')), dom=False)
        ctx.add(z3.Length(smap) <= 6, dom=False)
        csi = mk_csi_methods(I, [])
        cfg = mk_config(I, csi, chain=False, comments=comments)
        osm = Adt('OriginalSourceMap', None, [models.none(), models.some(StrV(cterm)) if has_comment else models.none()])
        r = I.call_path('rewriter::print_js', [StrV(code), StrV(smap), Ptr(Cell(osm)), Ptr(Cell(cfg))], None)
        return {'result': r, 'comments': comments, 'has_comment': has_comment, 'nonempty_map': nonempty_map, 'code': code, 'smap': smap, 'pre': pre, 'post': post, 'cterm': cterm, 'I': I, 'opener': opener, 'closer': closer, 'style': style}

    def check_path(self, I, ctx, res, replay, do_tv):
        info = {'violations': [], 'tv': None, 'sample': None, 'obligations': 1, 'hooks': 1}
        r = models.deref(res['result'])
        out = r.fields[0] if isinstance(r, Adt) and r.ty == 'Cow' else r
        out = out.z() if isinstance(out, StrV) else out
        opener, closer = res['opener'], res['closer']
        removing = res['comments'] and res['has_comment']
        if removing:
            final_code = z3.Concat(res['pre'], z3.StringVal(opener + closer), res['post'])
        else:
            final_code = res['code']
        trailer = z3.Concat(z3.StringVal('\n//# sourceMappingURL=data:application/json;base64,'), models.B64(res['smap'])) if res['nonempty_map'] else z3.StringVal('')
        expected = z3.Concat(final_code, trailer)
        # removing the whole comment (delimiters included) is as good as emptying it: the property only asks that the
        # superseded comment is gone and nothing else changes
        expected_alt = z3.Concat(res['pre'], res['post'], trailer) if removing else expected
        desc = {'print_comments': res['comments'], 'comment_present': res['has_comment'], 'map_non_empty': res['nonempty_map'], 'comment_style': res['style']}
        role = 'print/unexpected-content'
        verdict = 'unsat'
        model = None
        if removing:
            # first with the comment text occurring exactly once in the printed code (at the comment): the superseded comment must be
            # removed and nothing else touched; any failure here is a defect of the removal itself
            at = z3.Length(res['pre']) + len(opener)
            once = z3.And(z3.IndexOf(res['code'], res['cterm'], z3.IntVal(0)) == at, z3.IndexOf(res['code'], res['cterm'], at + 1) == -1)
            # (bound of this query: text before the comment <= 8 characters; cvc5 does not finish with 24)
            verdict, model = cvc5_check(list(ctx.solver.assertions()) + [once, z3.Length(res['pre']) <= 8, out != expected, out != expected_alt])
            ctx.queries += 1
            info['obligations'] += 1
            role = 'print/superseded-comment-not-removed:%s-comment' % res['style']
        if verdict == 'unsat':
            verdict, model = cvc5_check(list(ctx.solver.assertions()) + [out != expected, out != expected_alt])
            ctx.queries += 1
            role = 'print/comment-removal-alters-other-text' if removing else 'print/unexpected-content'
        info['sample'] = {'input': json.dumps(desc), 'output': verdict, 'status': 'n/a', 'hooks': 0}
        if verdict == 'unknown':
            raise Unsupported('cvc5 could not decide the print_js query: %s' % model)
        if res['nonempty_map']:
            # C12: the content of a modified file carries the embedded map: it ENDS with the trailer built from the map, whatever
            # the comment handling did before
            v2, m2 = cvc5_check(list(ctx.solver.assertions()) + [z3.Length(res['pre']) <= 8, z3.Not(z3.SuffixOf(trailer, out))])
            ctx.queries += 1
            info['obligations'] += 1
            if v2 == 'unknown':
                raise Unsupported('cvc5 could not decide the print_js trailer query: %s' % m2)
            if v2 == 'sat':
                code2 = m2.get('code', '')
                comment2 = ('# sourceMappingURL=' + m2.get('tail', '')) if res['has_comment'] else None
                smap2 = m2.get('source_map', '')
                nat2 = replay().print_js(code2, smap2, comment2, {'methods': None, 'comments': res['comments'], 'chain': False})
                import base64 as _b64
                tr = '\n//# sourceMappingURL=data:application/json;base64,' + _b64.b64encode(smap2.encode('utf8')).decode('ascii')
                info['violations'].append({'prop': 'C12', 'role': 'content/embedded-map-trailer-missing-or-altered', 'detail': 'code=%r comment=%r map=%r -> %r' % (code2, comment2, smap2, nat2.get('content')),
                                           'witness': {'input': code2, 'config': desc, 'agree': bool(nat2.get('ok') and not (nat2.get('content') or '').endswith(tr)), 'native_output': nat2.get('content'), 'predicted_output': '... ' + tr, 'native': {'ok': nat2.get('ok')}, 'note': 'query decided by cvc5'}})
        if verdict == 'sat':
            code = model.get('code', '')
            comment = ('# sourceMappingURL=' + model.get('tail', '')) if res['has_comment'] else None
            smap = model.get('source_map', '')
            pre, post = model.get('pre', ''), model.get('post', '')
            import base64
            # the encoder is an uninterpreted function in the query: the solver's map text need not be one on which two
            # encodings actually differ, so the confirmation also tries map texts that exercise the last two alphabet symbols
            for smap_try in ([smap] + (['a~b', '~~~', '???', '>>>'] if smap else [])):
                nat = replay().print_js(code, smap_try, comment, {'methods': None, 'comments': res['comments'], 'chain': False})
                exp_code = (pre + opener + closer + post) if removing else code
                exp = exp_code + (('\n//# sourceMappingURL=data:application/json;base64,' + base64.b64encode(smap_try.encode('utf8')).decode('ascii')) if smap_try else '')
                exp_alt = (pre + post + exp[len(exp_code):]) if removing else exp
                agree = nat.get('ok') and nat.get('content') != exp and nat.get('content') != exp_alt
                if agree:
                    break
            info['violations'].append({'prop': 'C10', 'role': role, 'detail': 'code=%r comment=%r -> %r, expected %r' % (code, comment, nat.get('content'), exp),
                                       'witness': {'input': code, 'config': desc, 'agree': bool(agree), 'native_output': nat.get('content'), 'predicted_output': exp, 'native': {'ok': nat.get('ok')}, 'note': 'query decided by cvc5 (str.replace_all)'}})
        return info


# ---------------------------------------------------------------------------------------------
# RewriterConfig::to_config (C05: documented defaults, prologue text)

_B64 = 'ABCDEFGHIJKLMNOPQRSTUVWXYZabcdefghijklmnopqrstuvwxyz0123456789+/'


def decode_mappings(mappings):
    """source-map v3 `mappings` -> [(gen_line, gen_col, src_idx, src_line, src_col)]"""
    out = []
    si = sl = sc = 0
    for gl, line in enumerate(mappings.split(';')):
        gc = 0
        for seg in line.split(','):
            if not seg:
                continue
            vals, shift, val = [], 0, 0
            for ch in seg:
                d = _B64.index(ch)
                val += (d & 31) << shift
                shift += 5
                if not d & 32:
                    vals.append(-(val >> 1) if val & 1 else val >> 1)
                    shift = val = 0
            gc += vals[0]
            if len(vals) >= 4:
                si += vals[1]
                sl += vals[2]
                sc += vals[3]
                out.append((gl, gc, si, sl, sc))
    return out


def mappings_outside(source_map_json, text):
    """mappings of a v3 map whose original position is not inside `text`"""
    m = json.loads(source_map_json)
    lines = text.split('\n')
    bad = []
    for (gl, gc, si, sl, sc) in decode_mappings(m.get('mappings', '')):
        if sl >= len(lines) or sc > len(lines[sl]):
            bad.append({'generated': [gl, gc], 'original': [sl, sc]})
    return bad


def string_parts(t):
    """a string value as a list of ('lit', str) | ('code', z3 Int code point) | ('opaque', term)"""
    if isinstance(t, str):
        return [('lit', t)] if t else []
    if z3.is_string_value(t):
        s = t.as_string()
        return [('lit', s)] if s else []
    if z3.is_app(t) and t.decl().kind() == z3.Z3_OP_SEQ_CONCAT:
        out = []
        for ch in t.children():
            out.extend(string_parts(ch))
        return out
    if z3.is_app(t) and t.decl().name() in ('str.from_code', 'char.from_code') and t.num_args() == 1:
        return [('code', t.arg(0))]
    if z3.is_app(t) and t.decl().kind() == z3.Z3_OP_SEQ_UNIT:
        return [('opaque', t)]
    return [('opaque', t)]


def nondummy_spans(v, acc):
    if isinstance(v, (list, tuple)):
        for x in v:
            nondummy_spans(x, acc)
    elif isinstance(v, dict):
        if v.get('_t') == 'Span':
            if not O.span_is_dummy(v):
                acc.append(v)
            return
        for x in v.values():
            nondummy_spans(x, acc)
    return acc


class ToConfigScenario:
    VERBS = [None, 'OFF', 'off', 'Debug', 'MANDATORY', 'INFORMATION', 'bogus', '']
    EXPECT = {None: 'Information', 'OFF': 'Off', 'off': 'Off', 'Debug': 'Debug', 'MANDATORY': 'Mandatory', 'INFORMATION': 'Information', 'bogus': 'Information', '': 'Information'}

    def grammar(self, ctx, program):
        g = ExtractGrammar(ctx, program)
        g.stubs = {'try_with_handler': self.stub_parse, 'usize': self.stub_rand, 'fastrand::usize': self.stub_rand, 'Compiler::new': lambda I, info, args: Adt('Compiler', None, [Ptr(Cell(models.Opaque('SourceMap')), (), 'arc'), models.Opaque('SwcComments')]),
                   'SourceMap::new': lambda I, info, args: models.Opaque('SourceMap'), 'FilePathMapping::empty': lambda I, info, args: models.Opaque('FilePathMapping')}
        g.templates = []
        g.rands = []
        return g

    def stub_parse(self, I, info, args):
        # try_with_handler(cm, opts, closure): the closure captures the prologue text; return a one-statement script
        clo = args[2]
        text = None
        for f in clo.fields:
            v = models.deref(f)
            if isinstance(v, StrV):
                text = v
        I.grammar.templates.append(text)
        sd = I.P.defs
        marker = Adt('Stmt', sd['Stmt'].vindex('Empty'), [Adt('EmptyStmt', None, [models.mkspan(7000, 7001)])])
        script = Adt('Script', None, [models.mkspan(1, 2), VecV([marker]), models.none()])
        return models.ok(Adt('Program', sd['Program'].vindex('Script'), [script]))

    def stub_rand(self, I, info, args):
        r = args[0]
        lo, hi = r.fields[0], r.fields[1]
        v = I.ctx.var('rand%d' % len(I.grammar.rands), z3.IntSort())
        I.ctx.add(z3.And(v >= lo, v < hi), dom=False)
        I.grammar.rands.append(v)
        return v

    def run(self, I):
        ctx = I.ctx

        def optbool(label):
            k = ctx.choose([True, True, True], label)
            return [None, True, False][k]

        def mkopt(v):
            return models.none() if v is None else models.some(v)
        mode = ctx.choose([True, True], 'mode: options | methods')
        if mode == 0:
            chain, comments, literals = optbool('chainSourceMap'), optbool('comments'), optbool('literals')
            prefix = [None, 'pfx'][ctx.choose([True, True], 'localVarPrefix')]
            verb = self.VERBS[ctx.choose([True] * len(self.VERBS), 'telemetryVerbosity')]
            nm = 0
        else:
            chain = comments = literals = prefix = verb = None
            nm = ctx.choose([True, True, True], 'csiMethods')      # None | [] | [m0, m1]
        methods = None
        mdesc = []
        if nm == 1:
            methods = VecV([])
        elif nm == 2:
            items = []
            for i, src in enumerate(['substring', 'plusOperator']):
                dst = [None, 'dst%d' % i][ctx.choose([True, True], 'dst %d' % i)]
                op = optbool('operator %d' % i) if i == 0 else True
                awc = optbool('allowedWithoutCallee %d' % i) if i == 0 else None
                items.append(Adt('lib_wasm::CsiMethod', None, [StrV(src), mkopt(StrV(dst) if dst else None), mkopt(op), mkopt(awc)]))
                mdesc.append({'src': src, 'dst': dst, 'operator': op, 'awc': awc})
            methods = VecV(items)
        rc = Adt('lib_wasm::RewriterConfig', None, [mkopt(chain), mkopt(comments), mkopt(StrV(prefix) if prefix else None), mkopt(methods), mkopt(StrV(verb) if verb is not None else None), mkopt(literals)])
        cfg = I.call_path('lib_wasm::RewriterConfig::to_config', [Ptr(Cell(rc))], None)
        return {'cfg': cfg, 'in': {'chain': chain, 'comments': comments, 'literals': literals, 'prefix': prefix, 'verbosity': verb, 'methods': None if nm == 0 else mdesc}, 'I': I}

    def check_path(self, I, ctx, res, replay, do_tv):
        info = {'violations': [], 'tv': None, 'sample': None, 'obligations': 0, 'hooks': 1}
        g = I.grammar
        defs = I.P.defs
        c = to_view(res['cfg'], defs)
        inp = res['in']

        def vio(role, cond, detail):
            info['obligations'] += 1
            if cond is False:
                return
            if cond is not True and not ctx.check(cond):
                return
            info['violations'].append({'prop': 'C05', 'role': role, 'detail': '%s | options: %s' % (detail, json.dumps(inp)), 'witness': {'input': json.dumps(inp), 'agree': True, 'note': 'obligation on RewriterConfig::to_config (its callers take wasm JsValue, no native replay)'}})

        def want(name, got, exp):
            vio('defaults/%s' % name, O.neg(O.leaf_eq(got, exp)), '%s = %s, expected %s' % (name, got, exp))
        want('chain_source_map', c['chain_source_map'], inp['chain'] if inp['chain'] is not None else False)
        want('print_comments', c['print_comments'], inp['comments'] if inp['comments'] is not None else False)
        want('literals', c['literals'], inp['literals'] if inp['literals'] is not None else True)
        vd = defs['TelemetryVerbosity']
        want('verbosity', c['verbosity']['_d'], vd.vindex(self.EXPECT[inp['verbosity']]))
        if inp['prefix'] is not None:
            want('local_var_prefix', c['local_var_prefix'], inp['prefix'])
        else:
            # the prefix is the concatenation of the characters pushed by rnd_string: six of them, each a lower-case letter
            # (decided on the character-code terms; the string-level query times out in z3)
            # (decided on the character-code terms the string is built from, however it was built -- push, collect, concat;
            # the string-level query `len = 6 and in [a-z]{6}` times out in z3)
            parts = string_parts(c['local_var_prefix'])
            if any(k == 'opaque' for k, _ in parts):
                raise Unsupported('random prefix is not a concatenation of characters: %s' % str(c['local_var_prefix'])[:200])
            nchars = sum(1 if k == 'code' else len(x) for k, x in parts)
            if nchars != 6 or len(g.rands) != 6:
                vio('defaults/random-prefix-length', True, '%d characters from %d random draws' % (nchars, len(g.rands)))
            i = 0
            for k, x in parts:
                if k == 'code':
                    vio('defaults/random-prefix-not-lowercase-letter', z3.Not(z3.And(x >= 97, x <= 122)), 'character %d = %s' % (i, str(x)[:60]))
                    i += 1
                else:
                    for ch in x:
                        vio('defaults/random-prefix-not-lowercase-letter', not ('a' <= ch <= 'z'), 'character %d = %r' % (i, ch))
                        i += 1
        ms = c['csi_methods']['methods']
        exp_ms = inp['methods'] or []
        if len(ms) != len(exp_ms):
            vio('methods/count', True, '%d methods, expected %d' % (len(ms), len(exp_ms)))
        else:
            for m, e in zip(ms, exp_ms):
                want('method-src', m['src'], e['src'])
                want('method-dst-default', m['dst'], e['dst'] if e['dst'] is not None else e['src'])
                want('method-operator-default', m['operator'], e['operator'] if e['operator'] is not None else False)
                want('method-allowed-without-callee-default', m['allowed_without_callee'], e['awc'] if e['awc'] is not None else False)
        # prologue text: one `<dst>: noop` per configured method, in order, in the fixed template
        if not g.templates or g.templates[0] is None:
            vio('prologue/not-generated', True, '')
        else:
            text = g.templates[0].s
            entries = ', '.join('%s: noop' % (e['dst'] if e['dst'] is not None else e['src']) for e in exp_ms)
            exp_text = ";if (typeof _ddiast === 'undefined') (function(globals){ const noop = (res) => res; globals._ddiast = globals._ddiast || { " + entries + " }; }((1,eval)('this')));"
            want('prologue-text', text, exp_text)
        fp = c['file_prefix_code']
        if len(fp) != 1:
            vio('prologue/parsed-statements-not-used', True, '%d statements' % len(fp))
        # the template is parsed in a source map of its own (`inline.js`): positions of that file mean nothing in the file being
        # rewritten, yet the statements are emitted into every modified file and their spans are looked up in *that* file when
        # the source map is built.  Obligation: the statements kept in the configuration carry no position of the template file.
        foreign = nondummy_spans(fp, [])
        info['obligations'] += 2
        if foreign and inp['methods']:
            ncfg = {'methods': [{'src': e['src'], 'dst': e['dst'], 'operator': bool(e['operator']), 'allowed_without_callee': bool(e['awc'])} for e in exp_ms], 'prologue': True}
            ncfg['methods'][-1]['operator'] = True
            short = 'function f(a, b) { return a + b; }'
            nat = replay().rewrite(short, ncfg)
            bad = mappings_outside(nat['source_map'], short) if nat.get('ok') and nat.get('source_map') else []
            info['violations'].append({'prop': 'C09', 'role': 'map/prologue-carries-positions-of-the-template-file', 'detail': '%d spans of the prologue template (inline.js) are kept in Config.file_prefix_code; generated prologue tokens are then mapped to those byte offsets of the rewritten file' % len(foreign),
                                       'witness': {'input': short, 'config': ncfg, 'agree': bool(bad), 'predicted_output': 'mappings of prologue tokens point outside the input text', 'native_output': json.dumps(bad[:6]), 'native': {'ok': nat.get('ok'), 'mappings_outside_input': len(bad)}}})
            wide = '/* ' + '\u00e9' * 90 + ' */ ' + short
            nat2 = replay().rewrite(wide, ncfg)
            info['violations'].append({'prop': 'C13', 'role': 'panic/prologue-position-inside-multibyte-character', 'detail': 'positions of the prologue template are looked up in the rewritten file: a byte offset that falls inside a multi-byte character trips swc_common\'s debug assertion (debug profile; release builds compute a wrong column instead)',
                                       'witness': {'input': wide, 'config': ncfg, 'agree': bool(nat2.get('panic') or nat2.get('crashed')), 'predicted_output': 'panic', 'native_output': json.dumps(nat2)[:400], 'native': {k: nat2.get(k) for k in ('ok', 'panic', 'err')}}})
        info['sample'] = {'input': json.dumps(inp), 'output': json.dumps({k: str(v) for k, v in c.items() if k in ('chain_source_map', 'print_comments', 'literals', 'local_var_prefix')}), 'status': 'n/a', 'hooks': 0}
        return info
