"""Parallel path exploration + violation triage + evidence writing, shared by all mirsym checks."""
import collections
import hashlib
import json
import multiprocessing as mp
import os
import shutil
import sys
import time
import traceback

HERE = os.path.dirname(os.path.abspath(__file__))
VERIF = os.path.dirname(HERE)
sys.path.insert(0, HERE)

import z3

_W = {}


def _init(build, specmod):
    import engine
    import importlib
    _W['P'] = engine.load_program(build['mir'], build['src'], cache_dir=build['dir'])
    _W['build'] = build
    _W['spec'] = importlib.import_module(specmod)
    _W['replay'] = None


def _replay():
    if _W['replay'] is None:
        from replay import Replay
        _W['replay'] = Replay(_W['build']['replay'])
    return _W['replay']


def _v8():
    if _W.get('v8') is None:
        from v8diff import V8Diff
        _W['v8'] = V8Diff()
    return _W['v8']


def _chunk(args):
    """explore up to max_paths paths below the given prefixes; return summaries + leftover prefixes"""
    (scn_name, scn_args, prefixes, max_paths, tv_every, seed) = args
    import engine
    from interp import Ctx, Interp, Unsupported, Panic, Infeasible
    P = _W['P']
    spec = _W['spec']
    scn = spec.make_scenario(scn_name, scn_args)
    out = {'paths': 0, 'ok': 0, 'panic': 0, 'infeasible': 0, 'violations': [], 'samples': [], 'queries': 0, 'solver_s': 0.0,
           'tv': 0, 'tv_bad': [], 'called': set(), 'modelled': set(), 'hook_paths': 0, 'steps': 0, 'error': None, 'leftover': [], 'decisions': 0, 'obligations': 0, 'panics': [],
           'v8': {'compared': 0, 'agree_equal': 0, 'agree_differ': 0, 'model_differs_v8_equal': 0, 'v8_differs_model_equal': 0, 'skipped': 0}, 'v8_bad': [], 'v8_unconfirmed': []}
    work = [list(p) for p in prefixes]
    t0 = time.time()
    try:
        while work and out['paths'] < max_paths:
            prefix = work.pop()
            ctx = Ctx(prefix, scn_args.get('timeout_ms', 30000))
            g = scn.grammar(ctx, P)
            I = Interp(P, ctx, g)
            g.interp = I
            outcome = 'ok'
            res = None
            err = None
            try:
                res = scn.run(I)
                if not ctx.check():
                    raise Infeasible('path condition unsatisfiable at path end')
            except Panic as e:
                outcome = 'panic'
                err = e
            except Infeasible as e:
                outcome = 'infeasible'
            for (k, others, label) in ctx.alts:
                for o in others:
                    work.append(ctx.trace[:k] + [o])
            out['paths'] += 1
            out[outcome] += 1
            out['decisions'] += len(ctx.trace)
            out['steps'] += I.steps
            out['called'] |= I.called
            out['modelled'] |= I.modelled
            if outcome == 'panic':
                rec = scn.on_panic(I, ctx, err, _replay) if hasattr(scn, 'on_panic') else {'prop': 'C13', 'role': 'panic/%s@%s' % (err.kind, err.site.split('/')[0]), 'detail': str(err) + ' (no native replay for this scenario)'}
                if rec is not None:
                    rec['trace'] = list(ctx.trace)
                    out['panics'].append(rec)
            if outcome == 'ok':
                path_id = hashlib.sha1(repr(ctx.trace).encode()).hexdigest()[:8]
                do_tv = tv_every and (int(path_id, 16) + seed) % tv_every == 0
                info = scn.check_path(I, ctx, res, _replay, do_tv)
                out['obligations'] += info.get('obligations', 0)
                if info.get('hooks'):
                    out['hook_paths'] += 1
                if info.get('tv') is not None:
                    out['tv'] += 1
                    if not info['tv']['agree']:
                        out['tv_bad'].append(info['tv'])
                if info.get('v8') is not None:
                    out['v8']['compared'] += 1
                    out['v8'][info['v8']['class']] += 1
                    if info['v8']['class'] == 'v8_differs_model_equal':
                        out['v8_bad'].append(info['v8'])
                    if info['v8']['class'] == 'model_differs_v8_equal' and len(out['v8_unconfirmed']) < 5:
                        out['v8_unconfirmed'].append({'input': info['v8'].get('input'), 'roles': info['v8'].get('roles')})
                for v in info.get('violations', []):
                    v['trace'] = list(ctx.trace)
                    out['violations'].append(v)
                if info.get('sample') is not None and len(out['samples']) < 3:
                    out['samples'].append(info['sample'])
            out['queries'] += ctx.queries
            out['solver_s'] += ctx.solver_time
    except Unsupported as e:
        out['error'] = 'engine: %s' % e
        out['error_tb'] = traceback.format_exc()[-1500:]
    except Exception as e:
        out['error'] = 'internal: %r' % (e,)
        out['error_tb'] = traceback.format_exc()[-3000:]
    out['leftover'] = work
    out['called'] = sorted(out['called'])
    out['modelled'] = sorted(out['modelled'])
    out['wall'] = time.time() - t0
    return out


class Explorer:
    def __init__(self, build, specmod, procs=None):
        self.build = build
        self.specmod = specmod
        self.procs = procs or min(16, os.cpu_count() or 4)
        self.pool = mp.Pool(self.procs, initializer=_init, initargs=(build, specmod))

    def close(self):
        self.pool.terminate()
        self.pool.join()

    def explore(self, scn_name, scn_args, chunk=40, tv_every=0, seed=0, deadline=None, max_paths=None):
        """explore the whole decision tree of a scenario; returns merged summary"""
        total = {'paths': 0, 'ok': 0, 'panic': 0, 'infeasible': 0, 'violations': [], 'samples': [], 'queries': 0, 'solver_s': 0.0,
                 'tv': 0, 'tv_bad': [], 'called': set(), 'modelled': set(), 'hook_paths': 0, 'steps': 0, 'error': None, 'decisions': 0, 'obligations': 0, 'panics': [], 'exhaustive': True, 'cpu_s': 0.0,
                 'v8': {'compared': 0, 'agree_equal': 0, 'agree_differ': 0, 'model_differs_v8_equal': 0, 'v8_differs_model_equal': 0, 'skipped': 0}, 'v8_bad': [], 'v8_unconfirmed': []}
        pending = [[]]
        inflight = []
        first = True
        while pending or inflight:
            # dispatch
            while pending and len(inflight) < self.procs * 2:
                if first:
                    batch = [pending.pop()]
                    mpaths = 8
                    first = False
                else:
                    # hand out several prefixes per task when there are plenty
                    nb = max(1, min(len(pending) // (self.procs * 2), 8))
                    batch = [pending.pop() for _ in range(min(nb, len(pending)))]
                    mpaths = chunk
                inflight.append(self.pool.apply_async(_chunk, ((scn_name, scn_args, batch, mpaths, tv_every, seed),)))
            # collect
            done = [r for r in inflight if r.ready()]
            if not done:
                time.sleep(0.02)
                if deadline and time.time() > deadline:
                    total['error'] = 'deadline exceeded with %d prefixes pending (never reported as success)' % (len(pending) + len(inflight))
                    total['exhaustive'] = False
                    break
                continue
            for r in done:
                inflight.remove(r)
                o = r.get()
                for k in ('paths', 'ok', 'panic', 'infeasible', 'queries', 'solver_s', 'tv', 'hook_paths', 'steps', 'decisions', 'obligations'):
                    total[k] += o[k]
                total['cpu_s'] += o['wall']
                total['violations'].extend(o['violations'])
                total['panics'].extend(o['panics'])
                total['tv_bad'].extend(o['tv_bad'])
                for k, n in o['v8'].items():
                    total['v8'][k] += n
                total['v8_bad'].extend(o['v8_bad'][:3])
                if len(total['v8_unconfirmed']) < 40:
                    total['v8_unconfirmed'].extend(o['v8_unconfirmed'])
                if len(total['samples']) < 6:
                    total['samples'].extend(o['samples'][:2])
                total['called'] |= set(o['called'])
                total['modelled'] |= set(o['modelled'])
                pending.extend(o['leftover'])
                if o['error'] and not total['error']:
                    total['error'] = o['error'] + '\n' + o.get('error_tb', '')
            if total['error']:
                total['exhaustive'] = False
                break
            if max_paths and total['paths'] >= max_paths and (pending or inflight):
                total['error'] = 'path budget %d exhausted with prefixes pending' % max_paths
                total['exhaustive'] = False
                break
        return total


# ------------------------------------------------------------------ known findings / reporting

def load_known():
    p = os.path.join(VERIF, 'known_findings.json')
    if not os.path.exists(p):
        return []
    return json.load(open(p))


def match_known(known, prop, role):
    for k in known:
        if k['property'] == prop and k.get('status', 'known') == 'known' and role.startswith(k['role']):
            return k
    return None


def out_root():
    """evidence and replays of a run against a scratch copy (VERIF_REPO, used to evaluate seeded changes) do not overwrite
    those of /repo"""
    import mirror
    return VERIF if os.path.realpath(mirror.REPO) == '/repo' else os.path.join('/tmp', 'verif-scratch-out')


def write_replay(prop, idx, rec):
    d = os.path.join(out_root(), 'replays', prop, '%03d' % idx)
    if os.path.exists(d):
        shutil.rmtree(d)
    os.makedirs(d)
    for name in ('input.js', 'predicted_output.js', 'native_output.js', 'query.smt2'):
        key = name.split('.')[0]
        if rec.get(key) is not None:
            open(os.path.join(d, name), 'w').write(rec[key])
    meta = {k: v for k, v in rec.items() if k not in ('input', 'predicted_output', 'native_output', 'query')}
    json.dump(meta, open(os.path.join(d, 'violation.json'), 'w'), indent=1, default=str)
    return d


def write_evidence(prop, ev):
    d = os.path.join(out_root(), 'evidence')
    os.makedirs(d, exist_ok=True)
    p = os.path.join(d, '%s.json' % prop)
    json.dump(ev, open(p + '.tmp', 'w'), indent=1, default=str)
    os.replace(p + '.tmp', p)
    return p
