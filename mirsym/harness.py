"""Harness helpers: build rewriter configuration / visitor state by calling the repository's
own constructors through the interpreter, and drive the entry points."""
import z3

from values import Adt, Tup, VecV, StrV, Ptr, Cell, UNIT, load
import models


def opt_str(s):
    return models.none() if s is None else models.some(StrV(s) if isinstance(s, (str, z3.ExprRef)) else s)


def mk_csi_methods(I, methods):
    """methods: list of (src, dst|None, operator, allowed_without_callee); entries may be z3 terms"""
    items = []
    for (src, dst, op, awc) in methods:
        m = I.call_path('visitor::csi_methods::CsiMethod::new', [StrV(src) if isinstance(src, (str, z3.ExprRef)) else src, opt_str(dst), op, awc], None)
        items.append(m)
    vec = VecV(items)
    return I.call_path('CsiMethods::new', [Ptr(Cell(vec))], None)


def verbosity(I, name):
    d = I.P.defs['TelemetryVerbosity']
    if isinstance(name, str):
        return Adt('TelemetryVerbosity', d.vindex(name), [])
    return Adt('TelemetryVerbosity', name, [])


def mk_config(I, csi, prefix='test', chain=False, comments=False, verb='Information', literals=False, prefix_code=None):
    d = I.P.defs['Config']
    vals = {
        'chain_source_map': chain,
        'print_comments': comments,
        'local_var_prefix': StrV(prefix) if isinstance(prefix, (str, z3.ExprRef)) else prefix,
        'csi_methods': csi,
        'verbosity': verbosity(I, verb),
        'literals': literals,
        'file_prefix_code': prefix_code if prefix_code is not None else VecV([]),
    }
    return Adt('Config', None, [vals[f] for f, _ in d.fields])


class BlockHarness:
    """BlockTransformVisitor over one symbolic BlockStmt / Program."""

    def __init__(self, I, config):
        self.I = I
        self.cfg_cell = Cell(config)
        self.ts = I.call_path('TransformStatus::not_modified', [Ptr(self.cfg_cell)], None)
        self.ts_cell = Cell(self.ts)
        self.btv = Adt('BlockTransformVisitor', None, [Ptr(self.ts_cell), Ptr(self.cfg_cell)])
        self.btv_cell = Cell(self.btv)

    def visit_block(self, block):
        cell = Cell(block)
        self.I.call_path('<BlockTransformVisitor as VisitMut>::visit_mut_block_stmt', [Ptr(self.btv_cell), Ptr(cell)], None)
        return cell.v

    def visit_program(self, program):
        cell = Cell(program)
        self.I.call_path('<BlockTransformVisitor as VisitMut>::visit_mut_program', [Ptr(self.btv_cell), Ptr(cell)], None)
        return cell.v

    def status(self):
        return self.ts_cell.v
