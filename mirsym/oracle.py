"""Property oracles over (input tree, output tree, status, telemetry) of one symbolic path.

Each oracle returns a list of Violation(prop, role, cond, detail): `cond` is a z3 Bool (or True)
under which the obligation fails; the caller asks the solver for a model of
path_condition AND cond.  `role` identifies the failing site by the *role* of the
construct (not the concrete input), and is what known_findings.json is keyed by.
"""
import z3

from view import to_view, is_lazy, kind, payload

ADD = 11          # BinaryOp::Add
ASSIGN = 0        # AssignOp::Assign
ADD_ASSIGN = 1
EQEQ = 0
LET = 1           # VarDeclKind::Let
NS = '_ddiast'
TEMP_PREFIX = '__datadog_'


class Violation:
    def __init__(self, prop, role, cond, detail):
        self.prop = prop
        self.role = role
        self.cond = cond
        self.detail = detail

    def __repr__(self):
        return 'Violation(%s, %s, %s)' % (self.prop, self.role, self.detail)


class ShapeError(Exception):
    """The output contains an injected shape the oracle does not recognise."""


# ------------------------------------------------------------------ leaves / equality

def ceq(x, val):
    return isinstance(x, str) and x == val


def leaf_eq(a, b):
    if isinstance(a, z3.ExprRef) or isinstance(b, z3.ExprRef):
        if not isinstance(a, z3.ExprRef):
            a = lift(a, b)
        if not isinstance(b, z3.ExprRef):
            b = lift(b, a)
        if a.sort() != b.sort():
            return False
        if a.eq(b):
            return True
        return a == b
    return a == b


def lift(c, like):
    if z3.is_string(like):
        return z3.StringVal(c)
    if z3.is_bool(like):
        return z3.BoolVal(bool(c))
    if z3.is_int(like):
        return z3.IntVal(int(c))
    if z3.is_bv(like):
        return z3.BitVecVal(int(c), like.size())
    raise ValueError((c, like))


def conj(cs):
    out = []
    for c in cs:
        if c is True:
            continue
        if c is False:
            return False
        out.append(c)
    if not out:
        return True
    return out[0] if len(out) == 1 else z3.And(out)


def neg(c):
    if c is True:
        return False
    if c is False:
        return True
    return z3.Not(c)


IGNORE = {'span', '_uid', 'ctxt', 'cooked', '_lowered_left'}


def tree_eq(a, b, ignore=IGNORE):
    """structural equality of two views, spans ignored -> True / False / z3 Bool"""
    if isinstance(a, dict) and isinstance(b, dict):
        if is_lazy(a) or is_lazy(b):
            return is_lazy(a) and is_lazy(b) and a['_lazy'] == b['_lazy']
        if a.get('_t') != b.get('_t') or a.get('_v') != b.get('_v'):
            return False
        cs = []
        for k in a:
            if k in ignore or k in ('_t', '_v'):
                continue
            if k not in b:
                return False
            c = tree_eq(a[k], b[k], ignore)
            if c is False:
                return False
            cs.append(c)
        return conj(cs)
    if isinstance(a, (list, tuple)) and isinstance(b, (list, tuple)):
        if len(a) != len(b):
            return False
        cs = []
        for x, y in zip(a, b):
            c = tree_eq(x, y, ignore)
            if c is False:
                return False
            cs.append(c)
        return conj(cs)
    if a is None or b is None:
        return a is None and b is None
    if isinstance(a, (dict, list, tuple)) or isinstance(b, (dict, list, tuple)):
        return False
    return leaf_eq(a, b)


def first_diff(a, b, path='', ignore=IGNORE):
    """human-readable location of the first structural difference"""
    if isinstance(a, dict) and isinstance(b, dict):
        if is_lazy(a) or is_lazy(b):
            return None if (is_lazy(a) and is_lazy(b) and a['_lazy'] == b['_lazy']) else path + ': lazy mismatch'
        if a.get('_t') != b.get('_t') or a.get('_v') != b.get('_v'):
            return '%s: %s::%s vs %s::%s' % (path, a.get('_t'), a.get('_v'), b.get('_t'), b.get('_v'))
        for k in a:
            if k in ignore or k in ('_t', '_v'):
                continue
            if k not in b:
                return path + '.' + k + ': missing'
            d = first_diff(a[k], b[k], path + '.' + k, ignore)
            if d:
                return d
        return None
    if isinstance(a, (list, tuple)) and isinstance(b, (list, tuple)):
        if len(a) != len(b):
            return '%s: length %d vs %d' % (path, len(a), len(b))
        for i, (x, y) in enumerate(zip(a, b)):
            d = first_diff(x, y, '%s[%d]' % (path, i), ignore)
            if d:
                return d
        return None
    if a is None or b is None:
        return None if (a is None and b is None) else path + ': None mismatch'
    if isinstance(a, (dict, list, tuple)) or isinstance(b, (dict, list, tuple)):
        return path + ': kind mismatch'
    c = leaf_eq(a, b)
    if c is True:
        return None
    return '%s: %s vs %s' % (path, a, b)


# ------------------------------------------------------------------ shape recognition

def span_is_dummy(sp):
    lo = sp['lo']['0']
    hi = sp['hi']['0']
    return lo == 0 and hi == 0 if isinstance(lo, int) and isinstance(hi, int) else False


def sym_is_temp(s):
    if isinstance(s, str):
        return s.startswith(TEMP_PREFIX)
    # symbolic prefix: injected names are built as Concat("__datadog", "_", prefix, "_", n)
    return str(s).startswith('Concat("__datadog"')


def is_temp_ident(e):
    return isinstance(e, dict) and kind(e) == 'Ident' and span_is_dummy(payload(e)['span']) and sym_is_temp(payload(e)['sym'])


def temp_name(e):
    s = payload(e)['sym']
    return s if isinstance(s, str) else str(s)


def hook_parts(e):
    """-> (name_term, [args views]) if e is `_ddiast.<name>(...)` else None"""
    if not isinstance(e, dict) or kind(e) != 'Call':
        return None
    c = payload(e)['callee']
    if is_lazy(c) or c.get('_v') != 'Expr':
        return None
    m = c['_0']
    if kind(m) != 'Member':
        return None
    obj = payload(m)['obj']
    if kind(obj) != 'Ident' or not ceq(payload(obj)['sym'], NS):
        return None
    prop = payload(m)['prop']
    if prop.get('_v') != 'Ident':
        return None
    return prop['_0']['sym'], payload(e)['args']


def assign_to_temp(e):
    """`tmp = rhs` -> (name, rhs view) else None"""
    if not isinstance(e, dict) or kind(e) != 'Assign':
        return None
    a = payload(e)
    if not (isinstance(a['op']['_d'], int) and a['op']['_d'] == ASSIGN):
        return None
    l = a['left']
    if l.get('_v') != 'Simple' or l['_0'].get('_v') != 'Ident':
        return None
    ident = l['_0']['_0']['id']
    if not (span_is_dummy(ident['span']) and sym_is_temp(ident['sym'])):
        return None
    s = ident['sym']
    return (s if isinstance(s, str) else str(s)), a['right']


def injected_seq(e):
    """`( t0 = .., t1 = .., last )` -> ([(name, rhs)], last) else None"""
    if not isinstance(e, dict) or kind(e) != 'Paren':
        return None
    inner = payload(e)['expr']
    if kind(inner) != 'Seq':
        return None
    exprs = payload(inner)['exprs']
    if is_lazy(exprs) or len(exprs) < 2:
        return None
    assigns = []
    for x in exprs[:-1]:
        a = assign_to_temp(x)
        if a is None:
            return None
        assigns.append(a)
    return assigns, exprs[-1]


def spread_materialisation(rhs):
    """`[...x]` with an injected (dummy-span) array -> x else None"""
    if kind(rhs) != 'Array':
        return None
    arr = payload(rhs)
    if not span_is_dummy(arr['span']):
        return None
    el = arr['elems']
    if is_lazy(el) or len(el) != 1 or el[0] is None or el[0]['spread'] is None:
        return None
    return el[0]['expr']


def is_injected_let(stmt):
    if not isinstance(stmt, dict) or stmt.get('_v') != 'Decl':
        return None
    d = stmt['_0']
    if is_lazy(d) or d.get('_v') != 'Var':
        return None
    vd = d['_0']
    if not (isinstance(vd['kind']['_d'], int) and vd['kind']['_d'] == LET):
        return None
    names = []
    for dc in vd['decls']:
        n = dc['name']
        if n.get('_v') != 'Ident':
            return None
        ident = n['_0']['id']
        if not (span_is_dummy(ident['span']) and sym_is_temp(ident['sym'])) or dc['init'] is not None:
            return None
        s = ident['sym']
        names.append(s if isinstance(s, str) else str(s))
    return names


# ------------------------------------------------------------------ erase

class Eraser:
    """Undoes the instrumentation on an output view; records hooks and temp events on the way."""

    def __init__(self):
        self.env = {}          # temp name -> erased defining expression
        self.spread = {}       # temp name -> True if it holds a materialised spread
        self.hooks = []        # dicts(name, R, A, R_erased)
        self.problems = []     # (role, detail)
        self.lets = []         # injected let name lists (per block)
        self.raw = {}          # temp name -> current (un-erased) defining expression

    def erase(self, e):
        if isinstance(e, list):
            return [self.erase(x) for x in e]
        if isinstance(e, tuple):
            return tuple(self.erase(x) for x in e)
        if not isinstance(e, dict):
            return e
        if is_lazy(e):
            return e
        t = e.get('_t')
        if t == 'Expr':
            return self.erase_expr(e)
        if t == 'BlockStmt':
            stmts = e['stmts']
            if not is_lazy(stmts):
                out = []
                for i, s in enumerate(stmts):
                    names = is_injected_let(s) if i <= 3 else None
                    if names is not None and not any(is_injected_let(x) for x in stmts[:i]):
                        self.lets.append(names)
                        continue
                    out.append(self.erase(s))
                r = dict(e)
                r['stmts'] = out
                return r
        if t == 'ExprOrSpread':
            ex = e['expr']
            if e['spread'] is not None and is_temp_ident(ex) and self.spread.get(temp_name(ex)):
                r = dict(e)
                r['expr'] = self.lookup(ex)
                return r
        if t == 'ArrowExpr':
            r = {k: (self.erase(v) if k != 'body' else v) for k, v in e.items()}
            body = e['body']
            if not is_lazy(body) and body.get('_v') == 'BlockStmt':
                blk = body['_0']
                st = blk['stmts']
                if span_is_dummy(blk['span']) and not is_lazy(st) and len(st) >= 1 and st[-1].get('_v') == 'Return' and span_is_dummy(st[-1]['_0']['span']) and st[-1]['_0']['arg'] is not None and (len(st) == 1 or (len(st) == 2 and is_injected_let(st[0]) is not None)):
                    if len(st) == 2:
                        self.lets.append(is_injected_let(st[0]))
                    r['body'] = {'_t': 'BlockStmtOrExpr', '_v': 'Expr', '_0': self.erase(st[-1]['_0']['arg'])}
                    return r
            r['body'] = self.erase(body)
            return r
        return {k: self.erase(v) for k, v in e.items()}

    def lookup(self, ident):
        n = temp_name(ident)
        if n not in self.env:
            self.problems.append(('temp-read-before-assign', n))
            return ident
        return self.env[n]

    def erase_expr(self, e):
        k = kind(e)
        if k == 'Ident' and is_temp_ident(e):
            return self.lookup(e)
        inj = injected_seq(e)
        if inj is not None:
            assigns, last = inj
            for name, rhs in assigns:
                self.raw[name] = rhs
                sm = spread_materialisation(rhs)
                if sm is not None:
                    self.env[name] = self.erase(sm)
                    self.spread[name] = True
                else:
                    self.env[name] = self.erase(rhs)
                    self.spread[name] = False
            return self.erase(last)
        if k == 'Assign':
            r = self.erase_add_assign(e)
            if r is not None:
                return r
        hp = hook_parts(e)
        if hp is not None:
            name, args = hp
            if is_lazy(args) or not args:
                self.problems.append(('hook-without-arguments', str(name)))
                return e
            R = args[0]['expr']
            Re = self.erase_result(R)
            self.hooks.append({'name': name, 'R': R, 'A': args[1:], 'R_erased': Re, 'span': payload(e)['span']})
            return Re
        return {kk: self.erase(v) for kk, v in e.items()}

    def erase_add_assign(self, e):
        """`x = hook(x + y, ..)` whose addition carries the span of the whole assignment is a lowered `x += y`"""
        a = payload(e)
        if not (isinstance(a['op']['_d'], int) and a['op']['_d'] == ASSIGN):
            return None
        rhs = a['right']
        inj = injected_seq(rhs)
        last = inj[1] if inj is not None else rhs
        hp = hook_parts(last)
        if hp is None or is_lazy(hp[1]) or not hp[1]:
            return None
        R = hp[1][0]['expr']
        if kind(R) != 'Bin' or tree_eq(payload(R)['span'], a['span'], ignore=set()) is not True:
            return None
        # process the injected sequence / hook normally (records temps and the hook), then rebuild `left += right`
        erased_rhs = self.erase(rhs)
        if kind(erased_rhs) != 'Bin':
            return None
        pe = payload(erased_rhs)
        r = dict(a)
        r['op'] = {'_t': 'AssignOp', '_d': ADD_ASSIGN}
        r['left'] = self.erase(a['left'])
        r['right'] = pe['right']
        r['_lowered_left'] = pe['left']
        return {'_t': 'Expr', '_v': 'Assign', '_0': r}

    def erase_result(self, R):
        """first hook argument: undo the `.call(receiver, ..)` re-dispatch when the callee temp was created from the receiver"""
        if kind(R) == 'Call':
            c = payload(R)['callee']
            if not is_lazy(c) and c.get('_v') == 'Expr' and kind(c['_0']) == 'Member':
                m = payload(c['_0'])
                F = m['obj']
                prop = m['prop']
                args = payload(R)['args']
                if is_temp_ident(F) and prop.get('_v') == 'Ident' and ceq(prop['_0']['sym'], 'call') and not is_lazy(args) and args and temp_name(F) in self.raw:
                    fraw = self.raw[temp_name(F)]
                    recv = args[0]
                    if kind(fraw) == 'Member' and recv['spread'] is None and same_node(payload(fraw)['obj'], recv['expr']):
                        new_callee = {'_t': 'Expr', '_v': 'Member', '_0': {'_t': 'MemberExpr', 'span': payload(R)['span'], 'obj': self.erase(recv['expr']), 'prop': payload(fraw)['prop']}}
                        r = dict(payload(R))
                        r['callee'] = {'_t': 'Callee', '_v': 'Expr', '_0': new_callee}
                        r['args'] = self.erase(args[1:])
                        return {'_t': 'Expr', '_v': 'Call', '_0': r}
        return self.erase(R)

    def run(self, out_view):
        return self.erase(out_view)


def same_node(a, b):
    """same temp, or clones of the same original node (same kind, same span, equal content)"""
    if is_temp_ident(a) and is_temp_ident(b):
        return temp_name(a) == temp_name(b)
    if is_temp_ident(a) or is_temp_ident(b):
        return False
    if is_lazy(a) or is_lazy(b):
        return is_lazy(a) and is_lazy(b) and a['_lazy'] == b['_lazy']
    if kind(a) != kind(b):
        return False
    if is_lazy(payload(a)) or is_lazy(payload(b)):
        return is_lazy(payload(a)) and is_lazy(payload(b)) and payload(a)['_lazy'] == payload(b)['_lazy']
    sa = expr_span(a)
    sb = expr_span(b)
    if sa is None or sb is None or tree_eq(sa, sb, ignore=set()) is not True:
        return False
    return tree_eq(a, b) is True


def expr_span(e):
    p = payload(e)
    if isinstance(p, dict) and 'span' in p:
        return p['span']
    if isinstance(p, dict) and p.get('_t') == 'Lit' and '_0' in p and isinstance(p['_0'], dict):
        return p['_0'].get('span')
    return None


# ------------------------------------------------------------------ oracles

def hooks_of(out_view):
    er = Eraser()
    erased = er.run(out_view)
    return er, erased


def check_C02(in_view, er, erased):
    """erase(output) == input"""
    out = []
    for role, detail in er.problems:
        out.append(Violation('C02', 'erase/' + role, True, detail))
    c = tree_eq(in_view, erased)
    if c is not True:
        d = first_diff(in_view, erased)
        out.append(Violation('C02', 'erase/differs', neg(c), d))
    return out


def value_same(a, o):
    """hook operand argument `a` (ExprOrSpread view) denotes the same value as operand expression `o` (ExprOrSpread view) of R"""
    if (a['spread'] is None) != (o['spread'] is None):
        return False
    x, y = a['expr'], o['expr']
    if is_temp_ident(x) or is_temp_ident(y):
        return is_temp_ident(x) and is_temp_ident(y) and temp_name(x) == temp_name(y)
    if is_lazy(x) or is_lazy(y):
        return False
    if kind(x) in ('Lit', 'Ident') and kind(x) == kind(y):
        return tree_eq(x, y)
    return False


def eos(e, spread=None):
    return {'_t': 'ExprOrSpread', 'spread': spread, 'expr': e}


def operand_kind(e):
    if is_lazy(e):
        return 'opaque'
    k = kind(e)
    if k == 'Bin':
        return 'Bin'
    if k == 'Lit':
        return 'Lit'
    return k


def check_C03(er, plus_names=None):
    """every hook: first argument = the operation applied to exactly the remaining arguments, in order"""
    out = []
    for h in er.hooks:
        R, A = h['R'], h['A']
        if is_lazy(A):
            out.append(Violation('C03', 'hook/opaque-arguments', True, ''))
            continue
        k = kind(R)
        if k == 'Bin':
            p = payload(R)
            expected = [eos(p['left']), eos(p['right'])]
            role = 'plus'
            pre = leaf_eq(p['op']['_d'], ADD)
            if pre is not True:
                out.append(Violation('C03', 'plus/result-not-addition', neg(pre), ''))
        elif k == 'Tpl':
            expected = [eos(x) for x in payload(R)['exprs']]
            role = 'tpl'
        elif k == 'Call':
            c = payload(R)['callee']
            args = payload(R)['args']
            if is_lazy(c) or c.get('_v') != 'Expr' or is_lazy(args):
                out.append(Violation('C03', 'method/unrecognised-result', True, ''))
                continue
            callee = c['_0']
            if kind(callee) == 'Member' and payload(callee)['prop'].get('_v') == 'Ident' and (ceq(payload(callee)['prop']['_0']['sym'], 'call') or ceq(payload(callee)['prop']['_0']['sym'], 'apply')):
                which = payload(callee)['prop']['_0']['sym']
                F = payload(callee)['obj']
                if not args:
                    out.append(Violation('C03', 'method/%s-without-this' % which, True, ''))
                    continue
                expected = [eos(F), args[0]]
                rest = args[1:]
                if which == 'apply' and len(rest) >= 1 and rest[0]['spread'] is None and kind(rest[0]['expr']) == 'Array' and not is_lazy(payload(rest[0]['expr'])['elems']):
                    for el in payload(rest[0]['expr'])['elems']:
                        if el is not None:
                            expected.append(el)
                    expected.extend(rest[1:]) if False else None
                else:
                    expected.extend(rest)
                role = 'method-' + which
            elif kind(callee) == 'Ident':
                undefined = {'_t': 'Expr', '_v': 'Ident', '_0': {'_t': 'Ident', 'span': None, 'ctxt': None, 'sym': 'undefined', 'optional': False}}
                expected = [eos(callee), eos(undefined)] + list(args)
                role = 'method-bare'
            else:
                out.append(Violation('C03', 'method/unrecognised-callee', True, kind(callee)))
                continue
        else:
            out.append(Violation('C03', 'hook/unrecognised-result:%s' % k, True, ''))
            continue
        if len(A) != len(expected):
            missing = sorted(set(operand_kind(x['expr']) for x in expected if not any(value_same(a, x) is not False for a in A)))
            out.append(Violation('C03', '%s/operand-missing:%s' % (role, ','.join(missing) or 'extra'), True, 'hook gets %d operand arguments, operation has %d' % (len(A), len(expected))))
            continue
        for i, (a, o) in enumerate(zip(A, expected)):
            c = value_same(a, o)
            if c is not True:
                out.append(Violation('C03', '%s/operand-%d-differs:%s' % (role, i, operand_kind(o['expr'])), neg(c), ''))
    return out


def count_hooks(v):
    n = 0
    if isinstance(v, (list, tuple)):
        for x in v:
            n += count_hooks(x)
        return n
    if not isinstance(v, dict) or is_lazy(v):
        return 0
    if v.get('_t') == 'Expr' and hook_parts(v) is not None:
        n += 1
    for x in v.values():
        n += count_hooks(x)
    return n


def check_C15_C12(out_view, status_view, nhooks):
    """status / telemetry agree with the hooks present in the output"""
    out = []
    st = status_view['status']['_d']
    st_name = ['Modified', 'NotModified', 'Cancelled'][st]
    tel = status_view['telemetry']
    tv = tel.get('_v')
    cnt = None
    if tv in ('Default', 'Debug'):
        cnt = tel['_0']['instrumented_propagation']
    if st_name == 'NotModified' and nhooks != 0:
        out.append(Violation('C12', 'status/notmodified-with-hooks', True, '%d hooks' % nhooks))
    if st_name == 'Modified' and nhooks == 0:
        out.append(Violation('C12', 'status/modified-without-hook', True, ''))
    if st_name != 'Cancelled':
        if tv == 'NoOp':
            pass
        else:
            c = leaf_eq(cnt, nhooks)
            if c is not True:
                out.append(Violation('C15', 'count/differs', neg(c), 'reported %s, %d hook call sites emitted' % (cnt, nhooks)))
    return out


def check_C05_names(er, cfg_terms):
    """every `_ddiast.<name>` is the dst of a configured entry"""
    out = []
    for h in er.hooks:
        name = h['name']
        alts = []
        for (src, dst, op, awc) in cfg_terms:
            d = dst if dst is not None else src
            alts.append(leaf_eq(name, d))
        if any(a is True for a in alts):
            continue
        alts = [a for a in alts if a is not False]
        c = z3.Or(alts) if alts else False
        out.append(Violation('C05', 'hook-name/not-configured', neg(c), str(name)))
    return out


# ------------------------------------------------------------------ temporaries (C06, expression level)

def temp_events(v, acc, owner=None):
    """linearise assign/read events of temporaries in evaluation order (left-to-right, rhs before assignment)"""
    if isinstance(v, (list, tuple)):
        for x in v:
            temp_events(x, acc, owner)
        return
    if not isinstance(v, dict) or is_lazy(v):
        return
    if v.get('_t') == 'Expr':
        if is_temp_ident(v):
            acc.append(('read', temp_name(v), owner))
            return
        inj = injected_seq(v)
        if inj is not None:
            sid = len([1 for e in acc if e[0] == 'seq']) + 1
            acc.append(('seq', sid, owner))
            assigns, last = inj
            for name, rhs in assigns:
                temp_events(rhs, acc, sid)
                acc.append(('assign', name, sid))
            temp_events(last, acc, sid)
            acc.append(('endseq', sid, owner))
            return
        a = assign_to_temp(v)
        if a is not None:
            temp_events(a[1], acc, owner)
            acc.append(('assign', a[0], owner))
            return
    for x in v.values():
        temp_events(x, acc, owner)


def check_C06_block(out_block_view, er):
    """temporaries of one block: declared by the injected let, assigned before read, not clobbered while live"""
    out = []
    stmts = out_block_view['stmts']
    declared = set()
    for names in er.lets:
        declared.update(names)
    for s in stmts if not is_lazy(stmts) else []:
        if is_injected_let(s) is not None:
            continue
        ev = []
        temp_events(s, ev)
        last_assign = {}
        for e in ev:
            if e[0] == 'assign':
                last_assign[e[1]] = e[2]
                if e[1] not in declared:
                    out.append(Violation('C06', 'temp/undeclared', True, e[1]))
            elif e[0] == 'read':
                if e[1] not in last_assign:
                    out.append(Violation('C06', 'temp/read-before-assign', True, e[1]))
                if e[1] not in declared:
                    out.append(Violation('C06', 'temp/undeclared', True, e[1]))
        # clobbering: an assignment to t between the owner's assignment and a later read that belongs to the owner
        # (reads belong to the innermost enclosing sequence that assigns t)
        out.extend(clobber_check(ev))
    return out


def clobber_check(ev):
    out = []
    # map each seq id to the set of temps it assigns and to its parent
    assigns_of = {}
    parent = {}
    for e in ev:
        if e[0] == 'seq':
            parent[e[1]] = e[2]
            assigns_of[e[1]] = set()
        elif e[0] == 'assign' and e[2] is not None:
            assigns_of[e[2]].add(e[1])
    current = {}
    for e in ev:
        if e[0] == 'assign':
            current[e[1]] = e[2]
        elif e[0] == 'read':
            t, sid = e[1], e[2]
            own = sid
            while own is not None and t not in assigns_of.get(own, ()):
                own = parent.get(own)
            if own is not None and current.get(t) != own:
                out.append(Violation('C06', 'temp/clobbered-while-live', True, t))
    return out
