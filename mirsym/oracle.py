"""Property oracles over (input tree, output tree, status, telemetry) of one symbolic path.

Each oracle returns a list of Violation(prop, role, cond, detail): `cond` is a z3 Bool (or True)
under which the obligation fails; the caller asks the solver for a model of
path_condition AND cond.  `role` identifies the failing site by the *role* of the
construct (not the concrete input), and is what known_findings.json is keyed by.
"""
import z3

from view import to_view, is_lazy, kind, payload

ADD = 11          # BinaryOp::Add
ASSIGN = 0        # AssignOp::Assign
ADD_ASSIGN = 1
EQEQ = 0
LET = 1           # VarDeclKind::Let
NS = '_ddiast'
TEMP_PREFIX = '__datadog_'


class Violation:
    def __init__(self, prop, role, cond, detail):
        self.prop = prop
        self.role = role
        self.cond = cond
        self.detail = detail

    def __repr__(self):
        return 'Violation(%s, %s, %s)' % (self.prop, self.role, self.detail)


class ShapeError(Exception):
    """The output contains an injected shape the oracle does not recognise."""


# ------------------------------------------------------------------ leaves / equality

def ceq(x, val):
    return isinstance(x, str) and x == val


def leaf_eq(a, b):
    if isinstance(a, z3.ExprRef) or isinstance(b, z3.ExprRef):
        if not isinstance(a, z3.ExprRef):
            a = lift(a, b)
        if not isinstance(b, z3.ExprRef):
            b = lift(b, a)
        if a.sort() != b.sort():
            return False
        if a.eq(b):
            return True
        return a == b
    return a == b


def lift(c, like):
    if z3.is_string(like):
        return z3.StringVal(c)
    if z3.is_bool(like):
        return z3.BoolVal(bool(c))
    if z3.is_int(like):
        return z3.IntVal(int(c))
    if z3.is_bv(like):
        return z3.BitVecVal(int(c), like.size())
    raise ValueError((c, like))


def conj(cs):
    out = []
    for c in cs:
        if c is True:
            continue
        if c is False:
            return False
        out.append(c)
    if not out:
        return True
    return out[0] if len(out) == 1 else z3.And(out)


def neg(c):
    if c is True:
        return False
    if c is False:
        return True
    return z3.Not(c)


IGNORE = {'span', '_uid', 'ctxt', 'cooked', '_lowered_left'}


def tree_eq(a, b, ignore=IGNORE):
    """structural equality of two views, spans ignored -> True / False / z3 Bool"""
    if isinstance(a, dict) and isinstance(b, dict):
        if is_lazy(a) or is_lazy(b):
            return is_lazy(a) and is_lazy(b) and a['_lazy'] == b['_lazy']
        if a.get('_t') != b.get('_t') or a.get('_v') != b.get('_v'):
            return False
        if b.get('_optchain_lowered') or a.get('_optchain_lowered'):
            return True
        cs = []
        for k in a:
            if k in ignore or k in ('_t', '_v'):
                continue
            if k not in b:
                return False
            c = tree_eq(a[k], b[k], ignore)
            if c is False:
                return False
            cs.append(c)
        return conj(cs)
    if isinstance(a, (list, tuple)) and isinstance(b, (list, tuple)):
        if len(a) != len(b):
            return False
        cs = []
        for x, y in zip(a, b):
            c = tree_eq(x, y, ignore)
            if c is False:
                return False
            cs.append(c)
        return conj(cs)
    if a is None or b is None:
        return a is None and b is None
    if isinstance(a, (dict, list, tuple)) or isinstance(b, (dict, list, tuple)):
        return False
    return leaf_eq(a, b)


def first_diff(a, b, path='', ignore=IGNORE):
    """human-readable location of the first structural difference"""
    if isinstance(a, dict) and isinstance(b, dict):
        if is_lazy(a) or is_lazy(b):
            return None if (is_lazy(a) and is_lazy(b) and a['_lazy'] == b['_lazy']) else path + ': lazy mismatch'
        if a.get('_t') != b.get('_t') or a.get('_v') != b.get('_v'):
            return '%s: %s::%s vs %s::%s' % (path, a.get('_t'), a.get('_v'), b.get('_t'), b.get('_v'))
        for k in a:
            if k in ignore or k in ('_t', '_v'):
                continue
            if k not in b:
                return path + '.' + k + ': missing'
            d = first_diff(a[k], b[k], path + '.' + k, ignore)
            if d:
                return d
        return None
    if isinstance(a, (list, tuple)) and isinstance(b, (list, tuple)):
        if len(a) != len(b):
            return '%s: length %d vs %d' % (path, len(a), len(b))
        for i, (x, y) in enumerate(zip(a, b)):
            d = first_diff(x, y, '%s[%d]' % (path, i), ignore)
            if d:
                return d
        return None
    if a is None or b is None:
        return None if (a is None and b is None) else path + ': None mismatch'
    if isinstance(a, (dict, list, tuple)) or isinstance(b, (dict, list, tuple)):
        return path + ': kind mismatch'
    c = leaf_eq(a, b)
    if c is True:
        return None
    return '%s: %s vs %s' % (path, a, b)


# ------------------------------------------------------------------ shape recognition

def span_is_dummy(sp):
    if sp is None:
        return False
    lo = sp['lo']['0']
    hi = sp['hi']['0']
    return lo == 0 and hi == 0 if isinstance(lo, int) and isinstance(hi, int) else False


def sym_is_temp(s):
    if isinstance(s, str):
        return s.startswith(TEMP_PREFIX)
    # symbolic prefix: injected names are built as Concat("__datadog", "_", prefix, "_", n)
    return str(s).startswith('Concat("__datadog"')


def is_temp_ident(e):
    return isinstance(e, dict) and kind(e) == 'Ident' and span_is_dummy(payload(e)['span']) and sym_is_temp(payload(e)['sym'])


def temp_name(e):
    s = payload(e)['sym']
    return s if isinstance(s, str) else str(s)


def hook_parts(e):
    """-> (name_term, [args views]) if e is `_ddiast.<name>(...)` else None"""
    if not isinstance(e, dict) or kind(e) != 'Call':
        return None
    c = payload(e)['callee']
    if is_lazy(c) or c.get('_v') != 'Expr':
        return None
    m = c['_0']
    if kind(m) != 'Member':
        return None
    obj = payload(m)['obj']
    if kind(obj) != 'Ident' or not ceq(payload(obj)['sym'], NS):
        return None
    prop = payload(m)['prop']
    if prop.get('_v') != 'Ident':
        return None
    return prop['_0']['sym'], payload(e)['args']


def assign_to_temp(e):
    """`tmp = rhs` -> (name, rhs view) else None"""
    if not isinstance(e, dict) or kind(e) != 'Assign':
        return None
    a = payload(e)
    if not (isinstance(a['op']['_d'], int) and a['op']['_d'] == ASSIGN):
        return None
    l = a['left']
    if l.get('_v') != 'Simple' or l['_0'].get('_v') != 'Ident':
        return None
    ident = l['_0']['_0']['id']
    if not (span_is_dummy(ident['span']) and sym_is_temp(ident['sym'])):
        return None
    s = ident['sym']
    return (s if isinstance(s, str) else str(s)), a['right']


def injected_seq(e):
    """`( t0 = .., t1 = .., last )` -> ([(name, rhs)], last) else None"""
    if not isinstance(e, dict) or kind(e) != 'Paren':
        return None
    inner = payload(e)['expr']
    if kind(inner) != 'Seq':
        return None
    exprs = payload(inner)['exprs']
    if is_lazy(exprs) or len(exprs) < 2:
        return None
    assigns = []
    for x in exprs[:-1]:
        a = assign_to_temp(x)
        if a is None:
            return None
        assigns.append(a)
    return assigns, exprs[-1]


def is_optchain_guard(e):
    if not isinstance(e, dict) or is_lazy(e) or kind(e) != 'Cond':
        return False
    c = payload(e)
    if not span_is_dummy(c['span']):
        return False
    t = c['test']
    return kind(t) == 'Bin' and isinstance(payload(t)['op']['_d'], int) and payload(t)['op']['_d'] == EQEQ and is_temp_ident(payload(t)['left']) and kind(payload(t)['right']) == 'Lit'


def spread_materialisation(rhs):
    """`[...x]` with an injected (dummy-span) array -> x else None"""
    if kind(rhs) != 'Array':
        return None
    arr = payload(rhs)
    if not span_is_dummy(arr['span']):
        return None
    el = arr['elems']
    if is_lazy(el) or len(el) != 1 or el[0] is None or el[0]['spread'] is None:
        return None
    return el[0]['expr']


def is_injected_let(stmt):
    if not isinstance(stmt, dict) or stmt.get('_v') != 'Decl':
        return None
    d = stmt['_0']
    if is_lazy(d) or d.get('_v') != 'Var':
        return None
    vd = d['_0']
    if not (isinstance(vd['kind']['_d'], int) and vd['kind']['_d'] == LET):
        return None
    names = []
    for dc in vd['decls']:
        n = dc['name']
        if n.get('_v') != 'Ident':
            return None
        ident = n['_0']['id']
        if not (span_is_dummy(ident['span']) and sym_is_temp(ident['sym'])) or dc['init'] is not None:
            return None
        s = ident['sym']
        names.append(s if isinstance(s, str) else str(s))
    return names


# ------------------------------------------------------------------ erase

class Eraser:
    """Undoes the instrumentation on an output view; records hooks and temp events on the way."""

    def __init__(self):
        self.env = {}          # temp name -> erased defining expression
        self.spread = {}       # temp name -> True if it holds a materialised spread
        self.hooks = []        # dicts(name, R, A, R_erased)
        self.problems = []     # (role, detail)
        self.spread_uses = {}  # temp name -> number of `...temp` sites (each site iterates the value once more)
        self.lets = []         # injected let name lists (per block)
        self.raw = {}          # temp name -> current (un-erased) defining expression
        self.inj = []          # (span view, what, hook index or None): spans carried by injected nodes
        self.seq_stack = []

    def erase(self, e):
        if isinstance(e, list):
            return [self.erase(x) for x in e]
        if isinstance(e, tuple):
            return tuple(self.erase(x) for x in e)
        if not isinstance(e, dict):
            return e
        if is_lazy(e):
            return e
        t = e.get('_t')
        if t == 'Expr':
            return self.erase_expr(e)
        if t == 'BlockStmt':
            stmts = e['stmts']
            if not is_lazy(stmts):
                out = []
                for i, s in enumerate(stmts):
                    names = is_injected_let(s) if i <= 3 else None
                    if names is not None and not any(is_injected_let(x) for x in stmts[:i]):
                        self.lets.append(names)
                        continue
                    out.append(self.erase(s))
                r = dict(e)
                r['stmts'] = out
                return r
        if t == 'ExprOrSpread':
            ex = e['expr']
            if e['spread'] is not None and is_temp_ident(ex) and self.spread.get(temp_name(ex)):
                r = dict(e)
                r['expr'] = self.lookup(ex)
                return r
        if t == 'ArrowExpr':
            r = {k: (self.erase(v) if k != 'body' else v) for k, v in e.items()}
            body = e['body']
            if not is_lazy(body) and body.get('_v') == 'BlockStmt':
                blk = body['_0']
                st = blk['stmts']
                if span_is_dummy(blk['span']) and not is_lazy(st) and len(st) >= 1 and st[-1].get('_v') == 'Return' and span_is_dummy(st[-1]['_0']['span']) and st[-1]['_0']['arg'] is not None and (len(st) == 1 or (len(st) == 2 and is_injected_let(st[0]) is not None)):
                    if len(st) == 2:
                        self.lets.append(is_injected_let(st[0]))
                    r['body'] = {'_t': 'BlockStmtOrExpr', '_v': 'Expr', '_0': self.erase(st[-1]['_0']['arg'])}
                    return r
            r['body'] = self.erase(body)
            return r
        return {k: self.erase(v) for k, v in e.items()}

    def lookup(self, ident):
        n = temp_name(ident)
        if n not in self.env:
            self.problems.append(('temp-read-before-assign', n))
            return ident
        return self.env[n]

    def erase_expr(self, e):
        k = kind(e)
        if k == 'Ident' and is_temp_ident(e):
            return self.lookup(e)
        inj = injected_seq(e)
        if inj is not None and is_optchain_guard(inj[1]):
            # `(t = base, t == null ? undefined : rest)`: lowered optional chain.  Undoing it structurally is not attempted
            # (behaviour is decided by C01); the hooks inside are still recorded.
            assigns, last = inj
            for name, rhs in assigns:
                self.raw[name] = rhs
                self.env[name] = self.erase(rhs)
                self.spread[name] = False
            self.erase(payload(last)['alt'])
            return {'_t': 'Expr', '_v': 'OptChain', '_optchain_lowered': True}
        if inj is not None:
            assigns, last = inj
            hook_idx_before = len(self.hooks)
            mark = len(self.inj)
            self.inj.append((payload(e)['span'], 'paren', None))
            self.inj.append((payload(payload(e)['expr'])['span'], 'seq', None))
            for x in payload(payload(e)['expr'])['exprs'][:-1]:
                self.inj.append((payload(x)['span'], 'assign', None))
            for name, rhs in assigns:
                self.raw[name] = rhs
                sm = spread_materialisation(rhs)
                if sm is not None:
                    self.env[name] = self.erase(sm)
                    self.spread[name] = True
                else:
                    self.env[name] = self.erase(rhs)
                    self.spread[name] = False
            r = self.erase(last)
            # the wrapper belongs to the hook produced by `last` (the last hook recorded while erasing it)
            owner = len(self.hooks) - 1 if len(self.hooks) > hook_idx_before else None
            for i in range(mark, mark + 2 + len(assigns)):
                self.inj[i] = (self.inj[i][0], self.inj[i][1], owner)
            return r
        if k == 'Assign':
            r = self.erase_add_assign(e)
            if r is not None:
                return r
        hp = hook_parts(e)
        if hp is not None:
            name, args = hp
            if is_lazy(args) or not args:
                self.problems.append(('hook-without-arguments', str(name)))
                return e
            R = args[0]['expr']
            Re = self.erase_result(R)
            self.hooks.append({'name': name, 'R': R, 'A': args[1:], 'R_erased': Re, 'span': payload(e)['span']})
            hi = len(self.hooks) - 1
            if kind(R) == 'Call':
                cc = payload(R)['callee']
                if not is_lazy(cc) and cc.get('_v') == 'Expr' and kind(cc['_0']) == 'Member' and is_temp_ident(payload(cc['_0'])['obj']):
                    fr = self.raw.get(temp_name(payload(cc['_0'])['obj']))
                    if fr is not None and kind(fr) == 'Member' and payload(fr)['prop'].get('_v') == 'Ident':
                        self.hooks[hi]['tag'] = payload(fr)['prop']['_0']['sym']
            callee = payload(e)['callee']['_0']
            self.inj.append((payload(e)['span'], 'hook-call', hi))
            self.inj.append((payload(callee)['span'], 'hook-callee', hi))
            self.inj.append((payload(payload(callee)['obj'])['span'], 'hook-namespace', hi))
            self.inj.append((payload(callee)['prop']['_0']['span'], 'hook-name', hi))
            return Re
        return {kk: self.erase(v) for kk, v in e.items()}

    def erase_add_assign(self, e):
        """`x = hook(x + y, ..)` whose addition carries the span of the whole assignment is a lowered `x += y`"""
        a = payload(e)
        if not (isinstance(a['op']['_d'], int) and a['op']['_d'] == ASSIGN):
            return None
        rhs = a['right']
        inj = injected_seq(rhs)
        last = inj[1] if inj is not None else rhs
        hp = hook_parts(last)
        if hp is None or is_lazy(hp[1]) or not hp[1]:
            return None
        R = hp[1][0]['expr']
        if kind(R) != 'Bin' or tree_eq(payload(R)['span'], a['span'], ignore=set()) is not True:
            return None
        # process the injected sequence / hook normally (records temps and the hook), then rebuild `left += right`
        nh = len(self.hooks)
        erased_rhs = self.erase(rhs)
        if len(self.hooks) > nh:
            self.hooks[-1]['tag'] = '+='
        if kind(erased_rhs) != 'Bin':
            return None
        pe = payload(erased_rhs)
        r = dict(a)
        r['op'] = {'_t': 'AssignOp', '_d': ADD_ASSIGN}
        r['left'] = self.erase(a['left'])
        r['right'] = pe['right']
        r['_lowered_left'] = pe['left']
        return {'_t': 'Expr', '_v': 'Assign', '_0': r}

    def erase_result(self, R):
        """first hook argument: undo the `.call(receiver, ..)` re-dispatch when the callee temp was created from the receiver"""
        if kind(R) == 'Call':
            c = payload(R)['callee']
            if not is_lazy(c) and c.get('_v') == 'Expr' and kind(c['_0']) == 'Member':
                m = payload(c['_0'])
                F = m['obj']
                prop = m['prop']
                args = payload(R)['args']
                if is_temp_ident(F) and prop.get('_v') == 'Ident' and ceq(prop['_0']['sym'], 'call') and not is_lazy(args) and args and temp_name(F) in self.raw:
                    fraw = self.raw[temp_name(F)]
                    recv = args[0]
                    if kind(fraw) == 'Member' and recv['spread'] is None and same_node(payload(fraw)['obj'], recv['expr']):
                        new_callee = {'_t': 'Expr', '_v': 'Member', '_0': {'_t': 'MemberExpr', 'span': payload(R)['span'], 'obj': self.erase(recv['expr']), 'prop': payload(fraw)['prop']}}
                        r = dict(payload(R))
                        r['callee'] = {'_t': 'Callee', '_v': 'Expr', '_0': new_callee}
                        r['args'] = self.erase(args[1:])
                        return {'_t': 'Expr', '_v': 'Call', '_0': r}
        return self.erase(R)

    def run(self, out_view):
        self.count_spread_sites(out_view)
        return self.erase(out_view)

    def count_spread_sites(self, v):
        if isinstance(v, (list, tuple)):
            for x in v:
                self.count_spread_sites(x)
            return
        if not isinstance(v, dict) or is_lazy(v):
            return
        if v.get('_t') == 'ExprOrSpread' and v['spread'] is not None and is_temp_ident(v['expr']):
            n = temp_name(v['expr'])
            self.spread_uses[n] = self.spread_uses.get(n, 0) + 1
        for k, x in v.items():
            if isinstance(x, (dict, list, tuple)):
                self.count_spread_sites(x)


def same_node(a, b):
    """same temp, or clones of the same original node (same kind, same span, equal content)"""
    if is_temp_ident(a) and is_temp_ident(b):
        return temp_name(a) == temp_name(b)
    if is_temp_ident(a) or is_temp_ident(b):
        return False
    if is_lazy(a) or is_lazy(b):
        return is_lazy(a) and is_lazy(b) and a['_lazy'] == b['_lazy']
    if kind(a) != kind(b):
        return False
    if is_lazy(payload(a)) or is_lazy(payload(b)):
        return is_lazy(payload(a)) and is_lazy(payload(b)) and payload(a)['_lazy'] == payload(b)['_lazy']
    sa = expr_span(a)
    sb = expr_span(b)
    if sa is None or sb is None or tree_eq(sa, sb, ignore=set()) is not True:
        return False
    return tree_eq(a, b) is True


def expr_span(e):
    p = payload(e)
    if isinstance(p, dict) and 'span' in p:
        return p['span']
    if isinstance(p, dict) and p.get('_t') == 'Lit' and '_0' in p and isinstance(p['_0'], dict):
        return p['_0'].get('span')
    return None


# ------------------------------------------------------------------ oracles

def hooks_of(out_view):
    er = Eraser()
    erased = er.run(out_view)
    return er, erased


def check_C02(in_view, er, erased):
    """erase(output) == input"""
    out = []
    for role, detail in er.problems:
        out.append(Violation('C02', 'erase/' + role, True, detail))
    c = tree_eq(in_view, erased)
    if c is not True:
        d = first_diff(in_view, erased)
        out.append(Violation('C02', 'erase/differs', neg(c), d))
    return out


def value_same(a, o):
    """hook operand argument `a` (ExprOrSpread view) denotes the same value as operand expression `o` (ExprOrSpread view) of R"""
    if (a['spread'] is None) != (o['spread'] is None):
        return False
    x, y = a['expr'], o['expr']
    if is_temp_ident(x) or is_temp_ident(y):
        return is_temp_ident(x) and is_temp_ident(y) and temp_name(x) == temp_name(y)
    if is_lazy(x) or is_lazy(y):
        return False
    if kind(x) in ('Lit', 'Ident') and kind(x) == kind(y):
        return tree_eq(x, y)
    if kind(x) == 'Bin' and kind(y) == 'Bin':
        # a literal-only sum is side-effect free: passing a structural copy of it is passing the same value
        lo = lit_only(x)
        if lo is False:
            return False
        return conj([lo, tree_eq(x, y)])
    return False


def eos(e, spread=None):
    return {'_t': 'ExprOrSpread', 'spread': spread, 'expr': e}


def operand_kind(e):
    if is_lazy(e):
        return 'opaque'
    k = kind(e)
    if k == 'Bin':
        return 'Bin'
    if k == 'Lit':
        return 'Lit'
    return k


def check_C03(er, cfg_terms=None):
    """every hook: first argument = the operation applied to exactly the remaining arguments, in order"""
    out = []
    for name, n in er.spread_uses.items():
        # `...t` at n sites iterates the value of t n times: only a fresh array ([...x] materialised by the rewriter, or an
        # array literal) yields the same elements every time; anything else (a generator, a one-shot iterator) is expanded from
        # several evaluations of its iterator
        raw = er.raw.get(name)
        if n >= 2 and not er.spread.get(name) and not (raw is not None and not is_lazy(raw) and kind(raw) == 'Array'):
            out.append(Violation('C03', 'method-call/spread-operand-iterated-more-than-once', True, 'temporary %s is spread at %d sites but holds %s' % (name, n, kind(raw) if raw is not None and not is_lazy(raw) else '?')))
    for h in er.hooks:
        R, A = h['R'], h['A']
        if is_lazy(A):
            out.append(Violation('C03', 'hook/opaque-arguments', True, ''))
            continue
        k = kind(R)
        if k == 'Bin':
            p = payload(R)
            expected = [eos(p['left']), eos(p['right'])]
            role = 'plus'
            pre = leaf_eq(p['op']['_d'], ADD)
            if pre is not True:
                out.append(Violation('C03', 'plus/result-not-addition', neg(pre), ''))
        elif k == 'Tpl':
            expected = [eos(x) for x in payload(R)['exprs']]
            role = 'tpl'
        elif k == 'Call':
            c = payload(R)['callee']
            args = payload(R)['args']
            if is_lazy(c) or c.get('_v') != 'Expr' or is_lazy(args):
                out.append(Violation('C03', 'method/unrecognised-result', True, ''))
                continue
            callee = c['_0']
            if kind(callee) == 'Member' and payload(callee)['prop'].get('_v') == 'Ident' and (leaf_eq(payload(callee)['prop']['_0']['sym'], 'call') is not False or leaf_eq(payload(callee)['prop']['_0']['sym'], 'apply') is not False):
                psym = payload(callee)['prop']['_0']['sym']
                F = payload(callee)['obj']
                if not args:
                    out.append(Violation('C03', 'method/call-without-this', True, ''))
                    continue
                # the property name may be symbolic (copied from the input `X.prototype.m.<call|apply>`): check both readings
                for which in ('call', 'apply'):
                    wc = leaf_eq(psym, which)
                    if wc is False:
                        continue
                    if which == 'apply' and any(x['spread'] is not None for x in args[:2]):
                        # `f.apply(...x, ..)`: receiver and argument list are only known after spreading; what "the call
                        # arguments" are is not determined syntactically -> outside the claim (stated in DESIGN.md)
                        continue
                    expected = [eos(F), args[0]]
                    rest = args[1:]
                    if which == 'apply' and len(rest) >= 1 and rest[0]['spread'] is None and kind(rest[0]['expr']) == 'Array' and not is_lazy(payload(rest[0]['expr'])['elems']):
                        for el in payload(rest[0]['expr'])['elems']:
                            if el is not None:
                                expected.append(el)
                    elif which == 'apply':
                        # `f.apply(t, arr)` with a run-time array: the call arguments are the ELEMENTS of arr; a hook can only
                        # list them by spreading it
                        if rest:
                            expected.append(eos(rest[0]['expr'], spread={'_t': 'Span', 'lo': {'0': 0}, 'hi': {'0': 0}}))
                    else:
                        expected.extend(rest)
                    if which == 'apply' and len(rest) >= 2 and len(A) > len(expected):
                        # `f.apply(thisArg, [..], more, ..)`: whatever follows the argument array is evaluated but is NOT an argument
                        # of the call; a hook that receives it is told about a value the operation never saw
                        out.append(Violation('C03', 'method-apply/extra-operand:argument-after-the-argument-array', wc, 'hook gets %d operand arguments, the call has %d' % (len(A), len(expected))))
                        out.extend(compare_operands('method-' + which, A[:len(expected)], expected, cfg_terms, wc))
                        continue
                    out.extend(compare_operands('method-' + which, A, expected, cfg_terms, wc))
                continue
            elif kind(callee) == 'Ident':
                undefined = {'_t': 'Expr', '_v': 'Ident', '_0': {'_t': 'Ident', 'span': None, 'ctxt': None, 'sym': 'undefined', 'optional': False}}
                expected = [eos(callee), eos(undefined)] + list(args)
                role = 'method-bare'
            else:
                out.append(Violation('C03', 'method/unrecognised-callee', True, kind(callee)))
                continue
        else:
            out.append(Violation('C03', 'hook/unrecognised-result:%s' % k, True, ''))
            continue
        out.extend(compare_operands(role, A, expected, cfg_terms, True))
    return out


def compare_operands(role, A, expected, cfg_terms, pre):
    """hook operand arguments A vs operands of the operation; `pre` is an extra condition under which this reading applies"""
    out = []
    if True:
        if len(A) != len(expected):
            missing = sorted(set(operand_kind(x['expr']) for x in expected if not any(value_same(a, x) is not False for a in A)))
            detail = 'hook gets %d operand arguments, operation has %d' % (len(A), len(expected))
            r = '%s/operand-missing:%s' % (role, ','.join(missing) or 'extra')
            if 'Bin' in missing and cfg_terms is not None:
                # an un-instrumented `+` operand: distinguish "plus operator disabled" (sum left as written) from a literal-only sum
                plus_on = operator_enabled(cfg_terms, 'plusOperator')
                out.append(Violation('C03', r, conj([pre, plus_on]), detail))
                out.append(Violation('C03', r + ':plus-operator-disabled', conj([pre, neg(plus_on)]), detail))
            else:
                out.append(Violation('C03', r, pre, detail))
            return out
        for i, (a, o) in enumerate(zip(A, expected)):
            c = value_same(a, o)
            if c is not True:
                out.append(Violation('C03', '%s/operand-%d-differs:%s' % (role, i, operand_kind(o['expr'])), conj([pre, neg(c)]), ''))
    return out


def count_hooks(v):
    n = 0
    if isinstance(v, (list, tuple)):
        for x in v:
            n += count_hooks(x)
        return n
    if not isinstance(v, dict) or is_lazy(v):
        return 0
    if v.get('_t') == 'Expr' and hook_parts(v) is not None:
        n += 1
    for x in v.values():
        n += count_hooks(x)
    return n


def hook_spans(v, acc):
    if isinstance(v, (list, tuple)):
        for x in v:
            hook_spans(x, acc)
        return
    if not isinstance(v, dict) or is_lazy(v):
        return
    if v.get('_t') == 'Expr':
        hp = hook_parts(v)
        if hp is not None and not is_lazy(hp[1]) and hp[1]:
            R = hp[1][0]['expr']
            if not is_lazy(R) and isinstance(payload(R), dict) and 'span' in payload(R):
                acc.append((kind(R), span_key(payload(R)['span'])))
    for x in v.values():
        hook_spans(x, acc)


def duplicated_hook_sites(out_view):
    acc = []
    hook_spans(out_view, acc)
    return len(acc) != len(set(acc))


def duplicate_site_location(in_view, out_view):
    """where do the duplicated hook sites come from?  'add-assign-target' when every duplicated site lies in the target
    of a `+=` in the input (the known cloning of the target), else 'elsewhere'"""
    acc = []
    hook_spans(out_view, acc)
    dups = set(x[1] for x in acc if acc.count(x) > 1)
    if in_view is None:
        return 'unknown'
    target_spans = set()

    def scan(v):
        if isinstance(v, (list, tuple)):
            for x in v:
                scan(x)
            return
        if not isinstance(v, dict) or is_lazy(v):
            return
        if v.get('_t') == 'Expr' and kind(v) == 'Assign':
            a = payload(v)
            if leaf_eq(a['op']['_d'], ADD_ASSIGN) is not False:
                spans_in(a['left'], target_spans)
        for x in v.values():
            scan(x)

    scan(in_view)
    return 'add-assign-target' if dups and all(d in target_spans for d in dups) else 'elsewhere'


def modified_without_hook_cause(in_view, out_view):
    """why is a file Modified without a hook?  (role suffix)"""
    found = []

    def guards(v):
        if isinstance(v, (list, tuple)):
            return any(guards(x) for x in v)
        if not isinstance(v, dict) or is_lazy(v):
            return False
        if v.get('_t') == 'Expr':
            inj = injected_seq(v)
            if inj is not None and is_optchain_guard(inj[1]):
                return True
        return any(guards(x) for x in v.values())

    if not guards(out_view):
        return ''
    cause = ':lowered-optional-chain-without-hook'
    if in_view is None:
        return cause

    def scan(v):
        if isinstance(v, (list, tuple)):
            for x in v:
                scan(x)
            return
        if not isinstance(v, dict) or is_lazy(v):
            return
        if v.get('_t') == 'Expr' and kind(v) == 'OptChain':
            p = payload(v)
            base = p['base']
            if not is_lazy(base) and base.get('_v') == 'Call':
                cal = base['_0']['callee']
                if not is_lazy(cal) and kind(cal) == 'OptChain' and not is_lazy(payload(cal)['base']) and payload(cal)['base'].get('_v') == 'Member':
                    m = payload(cal)['base']['_0']
                    if p['optional'] is True:
                        found.append('optional-invocation')
                    obj = m['obj']
                    while not is_lazy(obj) and kind(obj) == 'OptChain' and not is_lazy(payload(obj)['base']) and payload(obj)['base'].get('_v') == 'Member':
                        mm = payload(obj)['base']['_0']
                        if not is_lazy(mm['prop']) and mm['prop'].get('_v') == 'Ident' and leaf_eq(mm['prop']['_0']['sym'], 'prototype') is not False:
                            found.append('prototype-receiver')
                        break
                    if not is_lazy(obj) and kind(obj) == 'Member':
                        pr = payload(obj)['prop']
                        if not is_lazy(pr) and pr.get('_v') == 'Ident' and leaf_eq(pr['_0']['sym'], 'prototype') is not False:
                            found.append('prototype-receiver')
        for x in v.values():
            scan(x)

    scan(in_view)
    if found:
        cause += ':' + '+'.join(sorted(set(found)))
    return cause


def check_C15_C12(out_view, status_view, nhooks, in_view=None):
    """status / telemetry agree with the hooks present in the output"""
    out = []
    st = status_view['status']['_d']
    st_name = ['Modified', 'NotModified', 'Cancelled'][st]
    tel = status_view['telemetry']
    tv = tel.get('_v')
    cnt = None
    if tv in ('Default', 'Debug'):
        cnt = tel['_0']['instrumented_propagation']
    if st_name == 'NotModified' and nhooks != 0:
        out.append(Violation('C12', 'status/notmodified-with-hooks', True, '%d hooks' % nhooks))
    if st_name == 'Modified' and nhooks == 0:
        out.append(Violation('C12', 'status/modified-without-hook' + modified_without_hook_cause(in_view, out_view), True, ''))
    if st_name != 'Cancelled':
        if tv == 'NoOp':
            pass
        else:
            c = leaf_eq(cnt, nhooks)
            if c is not True:
                if isinstance(cnt, int):
                    role = 'count/over-reported' if cnt > nhooks else 'count/under-reported'
                    if cnt < nhooks and duplicated_hook_sites(out_view):
                        role += ':duplicated-hook-site:' + duplicate_site_location(in_view, out_view)
                else:
                    role = 'count/differs'
                out.append(Violation('C15', role, neg(c), 'reported %s, %d hook call sites emitted' % (cnt, nhooks)))
    return out


def check_C05_names(er, cfg_terms):
    """every `_ddiast.<name>` is the dst of a configured entry THAT ENABLES this hook: the operator entry (operator flag set,
    src = plusOperator / tplOperator) for `+`/`+=`/template hooks, the non-operator entry whose src is the method name for
    method hooks"""
    out = []
    for h in er.hooks:
        name = h['name']
        R = h['R']
        k = kind(R)
        tag = hook_tag(er, h)
        alts = []
        for (src, dst, op, awc) in cfg_terms:
            d = dst if dst is not None else src
            if k == 'Bin':
                en = conj([leaf_eq(op, True), leaf_eq(src, 'plusOperator')])
            elif k == 'Tpl':
                en = conj([leaf_eq(op, True), leaf_eq(src, 'tplOperator')])
            else:
                en = conj([leaf_eq(op, False), leaf_eq(src, tag)]) if tag is not None else leaf_eq(op, False)
            alts.append(conj([en, leaf_eq(name, d)]))
        if any(a is True for a in alts):
            continue
        alts = [a for a in alts if a is not False]
        c = z3.Or(alts) if alts else False
        what = {'Bin': 'plus', 'Tpl': 'template'}.get(k, 'method')
        out.append(Violation('C05', 'hook-name/%s-hook-not-enabled-by-configuration' % what, neg(c), 'hook %s emitted for a %s operation that no configured entry enables under that name' % (name, what)))
    return out


# ------------------------------------------------------------------ temporaries (C06, expression level)

def temp_events(v, acc, owner=None):
    """linearise assign/read events of temporaries in evaluation order (left-to-right, rhs before assignment)"""
    if isinstance(v, (list, tuple)):
        for x in v:
            temp_events(x, acc, owner)
        return
    if not isinstance(v, dict) or is_lazy(v):
        return
    if v.get('_t') == 'Expr':
        if is_temp_ident(v):
            acc.append(('read', temp_name(v), owner))
            return
        inj = injected_seq(v)
        if inj is not None:
            sid = len([1 for e in acc if e[0] == 'seq']) + 1
            acc.append(('seq', sid, owner))
            assigns, last = inj
            for name, rhs in assigns:
                temp_events(rhs, acc, sid)
                acc.append(('assign', name, sid))
            temp_events(last, acc, sid)
            acc.append(('endseq', sid, owner))
            return
        a = assign_to_temp(v)
        if a is not None:
            temp_events(a[1], acc, owner)
            acc.append(('assign', a[0], owner))
            return
    for x in v.values():
        temp_events(x, acc, owner)


def check_C06_block(out_block_view, er):
    """temporaries of one block: declared by the injected let, assigned before read, not clobbered while live"""
    out = []
    stmts = out_block_view['stmts']
    declared = set()
    for names in er.lets:
        declared.update(names)
    for s in stmts if not is_lazy(stmts) else []:
        if is_injected_let(s) is not None:
            continue
        ev = []
        temp_events(s, ev)
        last_assign = {}
        for e in ev:
            if e[0] == 'assign':
                last_assign[e[1]] = e[2]
                if e[1] not in declared:
                    out.append(Violation('C06', 'temp/undeclared', True, e[1]))
            elif e[0] == 'read':
                if e[1] not in last_assign:
                    out.append(Violation('C06', 'temp/read-before-assign', True, e[1]))
                if e[1] not in declared:
                    out.append(Violation('C06', 'temp/undeclared', True, e[1]))
        # clobbering: an assignment to t between the owner's assignment and a later read that belongs to the owner
        # (reads belong to the innermost enclosing sequence that assigns t)
        out.extend(clobber_check(ev))
    return out


def clobber_check(ev):
    out = []
    # map each seq id to the set of temps it assigns and to its parent
    assigns_of = {}
    parent = {}
    for e in ev:
        if e[0] == 'seq':
            parent[e[1]] = e[2]
            assigns_of[e[1]] = set()
        elif e[0] == 'assign' and e[2] is not None:
            assigns_of[e[2]].add(e[1])
    current = {}
    for e in ev:
        if e[0] == 'assign':
            current[e[1]] = e[2]
        elif e[0] == 'read':
            t, sid = e[1], e[2]
            own = sid
            while own is not None and t not in assigns_of.get(own, ()):
                own = parent.get(own)
            if own is not None and current.get(t) != own:
                out.append(Violation('C06', 'temp/clobbered-while-live', True, t))
    return out


# =====================================================================================================
# program-level oracles

PROLOGUE_MARK = '__PROLOGUE__'


def is_prologue_stmt(s):
    """one of the two marker statements the harness uses as Config.file_prefix_code (`;__PROLOGUE__;`)"""
    if not isinstance(s, dict) or is_lazy(s):
        return False
    if s.get('_t') == 'ModuleItem':
        if s.get('_v') != 'Stmt':
            return False
        s = s['_0']
        if is_lazy(s):
            return False
    if s.get('_v') == 'Empty':
        sp = s['_0']['span']
        return sp['lo']['0'] == 7000
    if s.get('_v') == 'Expr':
        e = s['_0']['expr']
        return kind(e) == 'Ident' and ceq(payload(e)['sym'], PROLOGUE_MARK)
    return False


def program_body(v):
    return v['_0']['body']


def strip_prologue(prog_view):
    p = dict(prog_view)
    inner = dict(p['_0'])
    body = inner['body']
    if not is_lazy(body):
        inner['body'] = [s for s in body if not is_prologue_stmt(s)]
    p['_0'] = inner
    return p


def check_C02_program(in_view, er, erased):
    return check_C02(in_view, er, strip_prologue(erased))


def stmt_of(item):
    """ModuleItem | Stmt view -> Stmt view (or None for module declarations)"""
    if is_lazy(item):
        return item
    if item.get('_t') == 'ModuleItem':
        return item['_0'] if item.get('_v') == 'Stmt' else None
    return item


def is_directive(s):
    s = stmt_of(s)
    if s is None or is_lazy(s) or s.get('_v') != 'Expr':
        return False
    e = s['_0']['expr']
    return kind(e) == 'Lit' and not is_lazy(payload(e)) and payload(e).get('_v') == 'Str'


def bodies(v, acc, key='program'):
    """collect directive-bearing bodies: program body and every function / arrow block body, keyed by span"""
    if isinstance(v, (list, tuple)):
        for x in v:
            bodies(x, acc)
        return
    if not isinstance(v, dict) or is_lazy(v):
        return
    t = v.get('_t')
    if t == 'Program':
        acc['program'] = ('program', program_body(v))
    elif t == 'Function':
        b = v['body']
        if b is not None and not is_lazy(b):
            acc[span_key(b['span'])] = ('function', b['stmts'])
    elif t == 'ArrowExpr':
        b = v['body']
        if not is_lazy(b) and b.get('_v') == 'BlockStmt' and not span_is_dummy(b['_0']['span']):
            acc[span_key(b['_0']['span'])] = ('arrow', b['_0']['stmts'])
    elif t == 'Constructor':
        b = v['body']
        if b is not None and not is_lazy(b):
            acc[span_key(b['span'])] = ('constructor', b['stmts'])
    for x in v.values():
        bodies(x, acc)


def span_key(sp):
    return (str(sp['lo']['0']), str(sp['hi']['0']))


def check_C07(in_view, out_view):
    """leading directives of the program and of every function body stay leading directives"""
    out = []
    bi, bo = {}, {}
    bodies(in_view, bi)
    bodies(out_view, bo)
    for k, (what, ostmts) in bo.items():
        if k not in bi or is_lazy(ostmts) or is_lazy(bi[k][1]):
            continue
        istmts = bi[k][1]
        nd = 0
        while nd < len(istmts) and is_directive(istmts[nd]):
            nd += 1
        if nd == 0:
            continue
        for i in range(nd):
            if i >= len(ostmts):
                out.append(Violation('C07', 'directive/lost:%s' % what, True, 'body has %d statements, %d directives expected' % (len(ostmts), nd)))
                break
            o = ostmts[i]
            c = tree_eq(stmt_of(istmts[i]), stmt_of(o)) if stmt_of(o) is not None else False
            if c is not True:
                so = stmt_of(o)
                if so is not None and is_injected_let(so) is not None:
                    inj = 'let'
                elif is_prologue_stmt(o):
                    inj = 'prologue'
                else:
                    inj = 'other'
                out.append(Violation('C07', 'directive/displaced-by-%s:%s:position-%d-of-%d' % (inj, what, i, nd), neg(c), 'statement %d of the %s body is no longer the original directive' % (i, what)))
                break
    return out


def check_C12_program(in_view, out_view, status_view):
    out = []
    st = ['Modified', 'NotModified', 'Cancelled'][status_view['status']['_d']]
    body = program_body(out_view)
    if is_lazy(body):
        return out
    npro = len([s for s in body if is_prologue_stmt(s)])
    if st == 'NotModified' and npro != 0:
        out.append(Violation('C12', 'prologue/in-unmodified-file', True, ''))
    if st == 'Modified' and npro != 2:
        out.append(Violation('C12', 'prologue/missing-or-duplicated', True, '%d prologue statements' % npro))
    return out


# ------------------------------------------------------------------ C06: scope of temporaries

def check_C06_program(out_view, prefix='test'):
    """every injected temporary is declared by an injected `let` of an enclosing block of the *same activation*,
    and within one statement is assigned before read and not clobbered while live"""
    out = []
    seen = set()

    def add(role, detail):
        if (role, detail) not in seen:
            seen.add((role, detail))
            out.append(Violation('C06', role, True, detail))

    def walk(v, scopes, ctxname):
        # scopes: list of ('block', set(names)) / ('boundary', kind)
        if isinstance(v, (list, tuple)):
            for x in v:
                walk(x, scopes, ctxname)
            return
        if not isinstance(v, dict) or is_lazy(v):
            return
        t = v.get('_t')
        if t == 'Expr' and is_temp_ident(v):
            use(temp_name(v), scopes)
            return
        if t == 'BindingIdent':
            ident = v['id']
            if span_is_dummy(ident['span']) and sym_is_temp(ident['sym']):
                s = ident['sym']
                use(s if isinstance(s, str) else str(s), scopes, declaring=True)
            return
        if t == 'BlockStmt':
            names = set()
            st = v['stmts']
            if not is_lazy(st):
                for s in st[:4]:
                    n = is_injected_let(s)
                    if n is not None:
                        names.update(n)
                new = scopes + [('block', names)]
                for s in st:
                    if is_injected_let(s) is not None:
                        continue
                    walk(s, new, ctxname)
                    for vio in stmt_temp_order(s):
                        add(vio.role, vio.detail)
            return
        if t == 'Function':
            # parameters (and their defaults) and the body belong to the callee's activation
            walk(v['params'], scopes + [('boundary', 'function-parameter')], ctxname)
            walk(v['body'], scopes + [('boundary', 'function-body')], ctxname)
            return
        if t == 'ArrowExpr':
            walk(v['params'], scopes + [('boundary', 'arrow-parameter')], ctxname)
            walk(v['body'], scopes + [('boundary', 'arrow-body')], ctxname)
            return
        if t == 'ClassProp':
            walk(v['key'], scopes, ctxname)
            walk(v['value'], scopes + [('boundary', 'class-field-initialiser')], ctxname)
            return
        if t == 'StaticBlock':
            walk(v['body'], scopes + [('boundary', 'class-static-block')], ctxname)
            return
        for x in v.values():
            walk(x, scopes, ctxname)

    def use(name, scopes, declaring=False):
        boundary = None
        for sc in reversed(scopes):
            if sc[0] == 'boundary':
                if boundary is None:
                    boundary = sc[1]
                continue
            if name in sc[1]:
                if boundary is not None and not declaring:
                    add('temp/declared-outside-activation:' + boundary, name)
                return
        if not declaring:
            add('temp/undeclared', name)

    walk(out_view, [], 'program')
    return out


def stmt_temp_order(stmt):
    ev = []
    temp_events(stmt, ev)
    out = []
    assigned = set()
    for e in ev:
        if e[0] == 'assign':
            assigned.add(e[1])
        elif e[0] == 'read' and e[1] not in assigned:
            out.append(Violation('C06', 'temp/read-before-assign', True, e[1]))
    out.extend(clobber_check(ev))
    return out


# ------------------------------------------------------------------ C04: completeness of instrumentation

def z_or(cs):
    cs = [c for c in cs if c is not False]
    if any(c is True for c in cs):
        return True
    if not cs:
        return False
    return cs[0] if len(cs) == 1 else z3.Or(cs)


def operator_enabled(cfg_terms, name):
    alts = []
    for (src, dst, op, awc) in cfg_terms:
        alts.append(conj([leaf_eq(src, name), leaf_eq(op, True)]))
    return z_or(alts)


def method_configured(cfg_terms, name_term):
    alts = []
    for (src, dst, op, awc) in cfg_terms:
        alts.append(conj([leaf_eq(src, name_term), leaf_eq(op, False)]))
    return z_or(alts)


def lit_only(e):
    """literal or literal-only sum (structural; the `+` test of a symbolic operator is returned as a condition)"""
    if is_lazy(e):
        return False
    if kind(e) == 'Lit':
        return True
    if kind(e) == 'Bin':
        p = payload(e)
        l, r = lit_only(p['left']), lit_only(p['right'])
        if l is False or r is False:
            return False
        return conj([leaf_eq(p['op']['_d'], ADD), l, r])
    return False


RECEIVER_KINDS = ('Ident', 'Member', 'Call', 'Paren', 'Array')
STMT_OWNERS = ('IfStmt', 'WhileStmt', 'DoWhileStmt', 'ForStmt', 'ForInStmt', 'ForOfStmt', 'LabeledStmt', 'SwitchCase', 'TryStmt', 'CatchClause')
LITERAL_CALLERS = ('concat', 'replace', 'replaceAll', 'padEnd', 'padStart', 'repeat')


def proto_args_shape(args, name):
    if len(args) < 2:
        return 'this-only'
    a1 = args[1]
    if a1['spread'] is not None:
        return 'spread-argument'
    if is_lazy(a1['expr']):
        return 'opaque-argument'
    return '%s-argument' % kind(a1['expr'])


def check_C04(in_view, out_view, er, erased, cfg_terms):
    """every enabled operation in an instrumentable position of the input has its hook in the output"""
    out = []
    hooked = set()
    for h in er.hooks:
        R = h['R']
        if kind(R) in ('Bin', 'Tpl', 'Call'):
            hooked.add(span_key(payload(R)['span']))
    plus_on = operator_enabled(cfg_terms, 'plusOperator')
    tpl_on = operator_enabled(cfg_terms, 'tplOperator')
    seen = set()

    def need(cond, role, sp, detail):
        if cond is False:
            return
        if span_key(sp) in hooked:
            return
        if role in seen:
            return
        seen.add(role)
        out.append(Violation('C04', role, cond, detail))

    def walk(v, c, where):
        # c: dict(in_block, excluded)
        if isinstance(v, (list, tuple)):
            for x in v:
                walk(x, c, where)
            return
        if not isinstance(v, dict) or is_lazy(v):
            return
        t = v.get('_t')
        if t == 'BlockStmt':
            c = dict(c, in_block=True)
        if t == 'ArrowExpr':
            walk(v['params'], dict(c, excluded='arrow-param'), 'ArrowExpr.params')
            walk(v['body'], c, 'ArrowExpr.body')
            return
        if t == 'Expr':
            k = kind(v)
            p = payload(v)
            if c['in_block'] and not c.get('excluded'):
                if k == 'Bin':
                    nonlit = neg(conj([lit_only(p['left']), lit_only(p['right'])]))
                    need(conj([plus_on, leaf_eq(p['op']['_d'], ADD), nonlit]), 'uninstrumented:+:%s' % where, p['span'], 'binary + at %s is not wrapped by its hook' % where)
                elif k == 'Assign':
                    tgt = p['left']
                    simple = (not is_lazy(tgt)) and tgt.get('_v') == 'Simple'
                    if simple:
                        need(conj([plus_on, leaf_eq(p['op']['_d'], ADD_ASSIGN)]), 'uninstrumented:+=:%s' % where, p['span'], '+= at %s is not wrapped by its hook' % where)
                elif k == 'Tpl':
                    ex = p['exprs']
                    if not is_lazy(ex) and len(ex) >= 1 and all((not is_lazy(x)) and kind(x) != 'Lit' for x in ex):
                        need(tpl_on, 'uninstrumented:tpl:%s' % where, p['span'], 'template at %s is not wrapped by its hook' % where)
                elif k == 'Call':
                    cal = p['callee']
                    if not is_lazy(cal) and cal.get('_v') == 'Expr' and kind(cal['_0']) == 'Member':
                        m = payload(cal['_0'])
                        prop = m['prop']
                        obj = m['obj']
                        if not is_lazy(prop) and prop.get('_v') == 'Ident' and not is_lazy(obj):
                            name = prop['_0']['sym']
                            ok_recv = kind(obj) in RECEIVER_KINDS
                            if kind(obj) == 'Member':
                                op_ = payload(obj)['prop']
                                if not is_lazy(op_) and op_.get('_v') == 'Ident':
                                    # X.prototype.m(...) is excluded; X.prototype.m.call/apply handled by the prototype rule (not claimed here)
                                    isproto = leaf_eq(op_['_0']['sym'], 'prototype')
                                    ok_recv = neg(isproto)
                            notcallapply = conj([neg(leaf_eq(name, 'call')), neg(leaf_eq(name, 'apply'))]) if kind(obj) == 'Member' else True
                            if kind(obj) == 'Lit':
                                # string-literal receivers are covered only for the whitelisted methods
                                lp = payload(obj)
                                if not is_lazy(lp) and lp.get('_v') == 'Str':
                                    ok_recv = z_or([leaf_eq(name, w) for w in LITERAL_CALLERS])
                                else:
                                    ok_recv = False
                            # X.prototype.m.call|apply(thisArg, ..)
                            if kind(obj) == 'Member' and not is_lazy(p['args']) and p['args']:
                                mo = payload(obj)
                                m_prop, m_obj = mo['prop'], mo['obj']
                                if not is_lazy(m_prop) and m_prop.get('_v') == 'Ident' and not is_lazy(m_obj) and kind(m_obj) == 'Member':
                                    pp = payload(m_obj)['prop']
                                    if not is_lazy(pp) and pp.get('_v') == 'Ident':
                                        is_refl = z_or([leaf_eq(name, 'call'), leaf_eq(name, 'apply')])
                                        is_proto = leaf_eq(pp['_0']['sym'], 'prototype')
                                        this_arg = p['args'][0]
                                        this_ok = this_arg['spread'] is None and (not is_lazy(this_arg['expr'])) and kind(this_arg['expr']) in RECEIVER_KINDS
                                        if this_ok:
                                            for which in ('call', 'apply'):
                                                need(conj([leaf_eq(name, which), is_proto, method_configured(cfg_terms, m_prop['_0']['sym'])]), 'uninstrumented:prototype-%s:%s' % (which, proto_args_shape(p['args'], name)), p['span'], 'X.prototype.m.%s(thisArg, ..) of a configured method at %s is not wrapped by its hook' % (which, where))
                            if ok_recv is not False:
                                need(conj([method_configured(cfg_terms, name), ok_recv, notcallapply]), 'uninstrumented:method:%s' % where, p['span'], 'configured method call at %s is not wrapped by its hook' % where)
            if k == 'Unary':
                isdel = leaf_eq(p['op']['_d'], 6)
                if isdel is True:
                    walk(p['arg'], dict(c, excluded='delete'), 'UnaryExpr.arg')
                    return
                if isdel is not False:
                    # symbolic operator: children are only required when it is not delete -> handled by making the need conditional
                    walk(p['arg'], dict(c, excluded='maybe-delete'), 'UnaryExpr.arg')
                    return
            if k == 'Tpl':
                ex = p['exprs']
                if not is_lazy(ex) and any((not is_lazy(x)) and kind(x) == 'Lit' for x in ex):
                    walk(ex, dict(c, excluded='tpl-with-literal'), 'Tpl.exprs')
                    return
            if k == 'TaggedTpl':
                walk(p['tag'], c, 'TaggedTpl.tag')
                walk(p['tpl'], dict(c, excluded='tagged-template'), 'TaggedTpl.tpl')
                return
            if k == 'OptChain' and c['in_block'] and not c.get('excluded'):
                # `recv?.m(..)` / `a?.b.m(..)`: a non-optional call link whose callee is a member link with a configured
                # method name (the optional invocation `recv.m?.()` is a documented exclusion)
                base = p['base']
                if not is_lazy(base) and base.get('_v') == 'Call':
                    oc = base['_0']
                    cal = oc['callee']
                    if not is_lazy(cal) and kind(cal) == 'OptChain' and not is_lazy(payload(cal)['base']) and payload(cal)['base'].get('_v') == 'Member':
                        prop = payload(cal)['base']['_0']['prop']
                        if not is_lazy(prop) and prop.get('_v') == 'Ident':
                            name = prop['_0']['sym']
                            tags = [hook_tag(er, h) for h in er.hooks]
                            has = z_or([leaf_eq(t, name) for t in tags if t is not None])
                            nonopt = neg(p['optional']) if not isinstance(p['optional'], bool) else (not p['optional'])
                            # receivers that are a `.prototype` object are a documented exclusion
                            robj = payload(cal)['base']['_0']['obj']
                            rm = None
                            if not is_lazy(robj) and kind(robj) == 'Member':
                                rm = payload(robj)
                            elif not is_lazy(robj) and kind(robj) == 'OptChain' and not is_lazy(payload(robj)['base']) and payload(robj)['base'].get('_v') == 'Member':
                                rm = payload(robj)['base']['_0']
                            if rm is not None and not is_lazy(rm['prop']) and rm['prop'].get('_v') == 'Ident':
                                nonopt = conj([nonopt, neg(leaf_eq(rm['prop']['_0']['sym'], 'prototype'))])
                            role = 'uninstrumented:optional-chain-method:%s' % where
                            if role not in seen:
                                cnd = conj([method_configured(cfg_terms, name), nonopt, neg(has)])
                                if cnd is not False:
                                    seen.add(role)
                                    out.append(Violation('C04', role, cnd, 'configured method call in an optional chain at %s has no hook' % where))
        for fk, x in v.items():
            if fk == '_0':
                walk(x, c, where)
            elif fk.startswith('_') or fk == 'span':
                continue
            else:
                if '_v' in v:
                    walk(x, c, where)
                else:
                    prev = where.split('>')[-1]
                    walk(x, c, ('%s>%s.%s' % (prev, t, fk)) if prev not in ('program',) and prev.split('.')[0] in STMT_OWNERS else '%s.%s' % (t, fk))

    walk(in_view, {'in_block': False, 'excluded': None}, 'program')
    return out


# ------------------------------------------------------------------ C06: reserved-prefix collision

def check_C06_collision(in_view, out_view, status_view, prefix):
    """if the file is not refused, no identifier of the input may be captured by an injected declaration:
    for every block that declares injected temporaries, no user identifier (one that carries a real span)
    inside that block (including nested blocks and closures) may have one of the declared names"""
    out = []
    st = ['Modified', 'NotModified', 'Cancelled'][status_view['status']['_d']]
    if st == 'Cancelled':
        return out
    seen = set()

    def idents_in(v, acc):
        if isinstance(v, (list, tuple)):
            for x in v:
                idents_in(x, acc)
            return
        if not isinstance(v, dict) or is_lazy(v):
            return
        if v.get('_t') == 'Ident':
            if not span_is_dummy(v['span']):
                acc.append(v['sym'])
            return
        for x in v.values():
            idents_in(x, acc)

    def walk(v):
        if isinstance(v, (list, tuple)):
            for x in v:
                walk(x)
            return
        if not isinstance(v, dict) or is_lazy(v):
            return
        if v.get('_t') == 'BlockStmt' and not is_lazy(v['stmts']):
            names = set()
            for s in v['stmts'][:4]:
                n = is_injected_let(s)
                if n is not None:
                    names.update(n)
            if names:
                acc = []
                idents_in([s for s in v['stmts'] if is_injected_let(s) is None], acc)
                for sym in acc:
                    for n in names:
                        c = leaf_eq(sym, n) if isinstance(n, str) else False
                        if c is not False and ('cap', n) not in seen:
                            seen.add(('cap', n))
                            out.append(Violation('C06', 'collision/user-identifier-captured-by-injected-let', c, 'user identifier %s is captured by the injected declaration' % n))
        for x in v.values():
            walk(x)

    walk(out_view)
    return out


# ------------------------------------------------------------------ C14: literal collection

def expected_literals(in_view):
    """string-literal *expressions* of the input -> list of dict(value, span, ident, cond); cond = condition under which the
    literal is NOT excluded by an enclosing require(<lit>, ..) / new RegExp(<lit>, ..)"""
    out = []

    def lit_str(e):
        if isinstance(e, dict) and not is_lazy(e) and kind(e) == 'Lit' and not is_lazy(payload(e)) and payload(e).get('_v') == 'Str':
            return payload(e)['_0']
        return None

    def walk(v, cond, ident=None):
        if isinstance(v, (list, tuple)):
            for x in v:
                walk(x, cond)
            return
        if not isinstance(v, dict) or is_lazy(v):
            return
        t = v.get('_t')
        if t == 'Expr':
            s = lit_str(v)
            if s is not None:
                out.append({'value': s['value'], 'span': s['span'], 'ident': ident, 'cond': cond})
                return
            k = kind(v)
            p = payload(v)
            if k == 'Call':
                c = p['callee']
                args = p['args']
                if not is_lazy(c) and c.get('_v') == 'Expr' and kind(c['_0']) == 'Ident' and not is_lazy(args) and args and args[0]['spread'] is None and kind(args[0]['expr']) == 'Lit':
                    isreq = leaf_eq(payload(c['_0'])['sym'], 'require')
                    cond = conj([cond, neg(isreq)])
                    if cond is False:
                        return
            if k == 'New':
                c = p['callee']
                args = p['args']
                if kind(c) == 'Ident' and args is not None and not is_lazy(args) and args and args[0]['spread'] is None and kind(args[0]['expr']) == 'Lit':
                    isre = leaf_eq(payload(c)['sym'], 'RegExp')
                    cond = conj([cond, neg(isre)])
                    if cond is False:
                        return
        if t == 'VarDeclarator':
            n = v['name']
            idn = n['_0']['id']['sym'] if (not is_lazy(n) and n.get('_v') == 'Ident') else None
            walk(v['name'], cond)
            init = v['init']
            if init is not None and lit_str(init) is not None:
                walk(init, cond, idn)
            else:
                walk(init, cond)
            return
        if t == 'KeyValueProp':
            key = v['key']
            idn = key['_0']['sym'] if (not is_lazy(key) and key.get('_v') == 'Ident') else None
            walk(key, cond)
            if lit_str(v['value']) is not None:
                walk(v['value'], cond, idn)
            else:
                walk(v['value'], cond)
            return
        for kk, x in v.items():
            if kk == 'span' or kk.startswith('_') and kk != '_0':
                continue
            walk(x, cond)

    walk(in_view, True)
    return out


def z_len(s):
    if isinstance(s, str):
        return len(s.encode('utf8'))
    from models import FREE_LEN
    n = FREE_LEN.get(s.get_id())
    return n if n is not None else z3.Length(s)


def check_C14(in_view, lit_view, enabled):
    """report = exactly the qualifying string literals of the input, each once, located at its own span"""
    out = []
    if not enabled:
        if lit_view is not None:
            out.append(Violation('C14', 'disabled/report-produced', True, ''))
        return out
    if lit_view is None:
        out.append(Violation('C14', 'enabled/no-report', True, ''))
        return out
    exp = expected_literals(in_view)
    entries = []
    for info in lit_view['literals']:
        for loc in info['locations']:
            entries.append({'value': info['value'], 'line': loc['line'], 'column': loc['column'], 'ident': loc['ident']})
    from models import LINE_OF, COL_OF
    used = [False] * len(entries)
    for e in exp:
        n = z_len(e['value'])
        inwin = conj([n > 10, n <= 256]) if not isinstance(n, int) else (10 < n <= 256)
        lo = e['span']['lo']['0']
        lt = z3.IntVal(lo) if isinstance(lo, int) else z3.BV2Int(lo)
        line, col = LINE_OF(lt), COL_OF(lt) + 1
        match = None
        for i, en in enumerate(entries):
            if used[i]:
                continue
            # entries are paired with literals by location (unique per literal); the value is then an obligation
            c = z3.simplify(z3.And(en['line'] == line, en['column'] == col))
            if z3.is_true(c):
                match = i
                break
        where = 'initialiser' if e['ident'] is not None else 'expression'
        if match is None:
            # must be outside the window or excluded
            need = conj([inwin, e['cond']])
            if need is not False:
                out.append(Violation('C14', 'missing/%s-literal-not-reported' % where, need, 'a string literal inside the length window (and not under require/RegExp) is not reported'))
        else:
            used[match] = True
            veq = leaf_eq(entries[match]['value'], e['value'])
            if veq is not True:
                out.append(Violation('C14', 'value/reported-under-a-different-value', neg(veq), ''))
            if inwin is not True:
                out.append(Violation('C14', 'window/literal-outside-window-reported', neg(inwin), 'a reported literal has length <= 10 or > 256'))
            if e['cond'] is not True:
                out.append(Violation('C14', 'excluded/literal-under-require-or-regexp-reported', neg(e['cond']), 'a literal inside require(<lit>) / new RegExp(<lit>) is reported'))
            want = e['ident']
            got = entries[match]['ident']
            c = tree_eq(want, got) if (want is not None and got is not None) else (want is None and got is None)
            if c is not True:
                out.append(Violation('C14', 'ident/%s' % ('wrong-name' if want is not None and got is not None else ('missing-name' if got is None else 'spurious-name')), neg(c), 'ident %s vs %s' % (want, got)))
    for i, en in enumerate(entries):
        if not used[i]:
            out.append(Violation('C14', 'extra/entry-without-literal', True, 'value %s' % (en['value'],)))
    return out


# ------------------------------------------------------------------ C01: behavioural equivalence (evaluation-order semantics)

def paired_exprs(a, b, acc, where=''):
    """walk an input and an output statement view in parallel and collect the expression pairs of corresponding slots"""
    if isinstance(a, list) and isinstance(b, list):
        b2 = [x for x in b if not (isinstance(x, dict) and (is_injected_let(x) is not None or is_prologue_stmt(x)))]
        if len(a) != len(b2):
            acc.append(('structure', where, None, None))
            return
        for i, (x, y) in enumerate(zip(a, b2)):
            paired_exprs(x, y, acc, '%s[%d]' % (where, i))
        return
    if not isinstance(a, dict) or not isinstance(b, dict):
        return
    if is_lazy(a) or is_lazy(b):
        return
    if a.get('_t') == 'Expr' and b.get('_t') == 'Expr':
        acc.append(('expr', where, a, b))
        return
    if a.get('_t') != b.get('_t') or a.get('_v') != b.get('_v'):
        acc.append(('structure', where, None, None))
        return
    for k in a:
        if k in ('span', '_uid', '_t', '_v', 'ctxt'):
            continue
        if k in b:
            paired_exprs(a[k], b[k], acc, where + '.' + (k if k != '_0' else (a.get('_v') or '0')))


def effectful_member_target(assign):
    tgt = assign['left']
    if is_lazy(tgt) or tgt.get('_v') != 'Simple' or is_lazy(tgt['_0']) or tgt['_0'].get('_v') != 'Member':
        return False
    m = tgt['_0']['_0']
    simple_obj = (not is_lazy(m['obj'])) and kind(m['obj']) in ('Ident', 'This')
    pr = m['prop']
    simple_prop = (not is_lazy(pr)) and (pr.get('_v') == 'Ident' or (pr.get('_v') == 'Computed' and not is_lazy(pr['_0']['expr']) and kind(pr['_0']['expr']) in ('Ident', 'Lit')))
    return not (simple_obj and simple_prop)


def nested_effectful_add_assign(e):
    """condition under which some sub-expression of e is `T += s` with an effectful member target (False if none)"""
    conds = []

    def walk(v):
        if isinstance(v, (list, tuple)):
            for x in v:
                walk(x)
            return
        if not isinstance(v, dict) or is_lazy(v):
            return
        if v.get('_t') == 'Expr' and kind(v) == 'Assign' and not is_lazy(payload(v)):
            p = payload(v)
            c = leaf_eq(p['op']['_d'], ADD_ASSIGN)
            if c is not False and effectful_member_target(p):
                conds.append(c)
        for x in v.values():
            walk(x)
    walk(e)
    return z_or(conds) if conds else False


def nested_chain_off_spine(e):
    """does the optional chain e contain another optional chain outside its own spine (obj / callee positions)?"""
    def has_chain(v):
        if isinstance(v, (list, tuple)):
            return any(has_chain(x) for x in v)
        if not isinstance(v, dict) or is_lazy(v):
            return False
        if v.get('_t') == 'Expr' and kind(v) == 'OptChain':
            return True
        return any(has_chain(x) for x in v.values())

    cur = e
    while isinstance(cur, dict) and not is_lazy(cur) and kind(cur) in ('OptChain', 'Member', 'Call'):
        p = payload(cur)
        if kind(cur) == 'OptChain':
            base = p['base']
            if is_lazy(base):
                return False
            b = base['_0']
            if base.get('_v') == 'Member':
                if has_chain(b['prop']):
                    return True
                cur = b['obj']
            else:
                if has_chain(b['args']):
                    return True
                cur = b['callee']
        elif kind(cur) == 'Member':
            if has_chain(p['prop']):
                return True
            cur = p['obj']
        else:
            if has_chain(p['args']):
                return True
            c = p['callee']
            if is_lazy(c) or c.get('_v') != 'Expr':
                return False
            cur = c['_0']
    return False


def reflective_on_plain_path(call):
    c = call['callee']
    if is_lazy(c) or c.get('_v') != 'Expr' or kind(c['_0']) != 'Member':
        return False
    m = payload(c['_0'])
    pr = m['prop']
    if is_lazy(pr) or pr.get('_v') != 'Ident':
        return False
    if leaf_eq(pr['_0']['sym'], 'call') is False and leaf_eq(pr['_0']['sym'], 'apply') is False:
        return False
    cur = m['obj']
    n = 0
    while not is_lazy(cur) and kind(cur) == 'Member':
        p2 = payload(cur)['prop']
        if is_lazy(p2) or p2.get('_v') != 'Ident':
            return False
        if n >= 1 and leaf_eq(p2['_0']['sym'], 'prototype') is True:
            return False
        cur = payload(cur)['obj']
        n += 1
    return n >= 1 and not is_lazy(cur) and kind(cur) == 'Ident'


def has_plain_sum_operand(e):
    """does expression e (template / call) have a direct operand that is a `+` which is not literal-only?"""
    k = kind(e)
    p = payload(e)
    ops = []
    if k == 'Tpl' and not is_lazy(p['exprs']):
        ops = list(p['exprs'])
    elif k == 'Call' and not is_lazy(p['args']):
        ops = [a['expr'] for a in p['args']]
        for a in p['args']:
            if not is_lazy(a['expr']) and kind(a['expr']) == 'Array' and not is_lazy(payload(a['expr'])['elems']):
                ops += [x['expr'] for x in payload(a['expr'])['elems'] if x is not None]
    conds = []
    for o in ops:
        if is_lazy(o) or kind(o) != 'Bin':
            continue
        lo = lit_only(o)
        conds.append(conj([leaf_eq(payload(o)['op']['_d'], ADD), neg(lo) if lo is not False else True]))
    return z_or(conds) if conds else False


def check_C01(in_view, out_view, cfg_terms=None):
    import jsorder
    out = []
    pairs = []
    paired_exprs(in_view, out_view, pairs)
    seen = set()
    for what, where, a, b in pairs:
        if what == 'structure':
            continue        # structural differences are C02's business
        try:
            diffs = jsorder.compare(a, b)
        except jsorder.Unsupported as e:
            raise ShapeError('jsorder: %s' % e)
        # classification looks through wrappers that merely consume the value (typeof x, -x, (x), await x)
        core = a
        while isinstance(core, dict) and not is_lazy(core) and kind(core) in ('Unary', 'Paren', 'Await'):
            nxt = payload(core)['arg'] if kind(core) in ('Unary', 'Await') else payload(core)['expr']
            if is_lazy(nxt):
                break
            core = nxt
        for role, cond, detail in diffs:
            ctxkind = kind(a)
            r = 'behaviour/%s:%s' % (role, ctxkind)
            ctxkind = kind(core)
            if ctxkind in ('Tpl', 'Call') and cfg_terms is not None:
                hs = has_plain_sum_operand(core)
                if hs is not False:
                    # with the plus operator disabled a `+` operand is neither instrumented nor hoisted into a temporary, while
                    # the operands after it are: they are then evaluated before it (same test-pinned behaviour as C03's
                    # operand-missing:plus-operator-disabled)
                    plus_off = neg(operator_enabled(cfg_terms, 'plusOperator'))
                    c2 = conj([cond, hs, plus_off])
                    if c2 is not False:
                        key2 = ('behaviour/unhoisted-sum-operand-evaluated-after-later-operands:plus-operator-disabled', str(c2))
                        if key2 not in seen:
                            seen.add(key2)
                            out.append(Violation('C01', key2[0], c2, detail))
                    cond = conj([cond, neg(conj([hs, plus_off]))])
                    if cond is False:
                        continue
            if ctxkind == 'OptChain' and nested_chain_off_spine(core):
                # the optional-chain lowering also lowers chains nested in arguments / computed keys of the instrumented chain,
                # hoists them to the front and guards the WHOLE expression with the nested chain's null test
                r = 'behaviour/optional-chain-nested-in-argument-or-key-of-instrumented-chain'
            if ctxkind == 'Call' and reflective_on_plain_path(payload(core)):
                # `p.q.m.call(thisArg, ..)` (not a `.prototype.` path): the path is read after the this-argument / arguments
                r = 'behaviour/call-apply-target-path-read-after-arguments'
            if ctxkind == 'Assign' and effectful_member_target(payload(core)) and leaf_eq(payload(core)['op']['_d'], ADD_ASSIGN) is not False:
                # `o().p += s` / `a[i++] += s`: the lowering `T = hook(T + s, ..)` clones the target expression
                r = 'behaviour/add-assign-target-evaluated-twice'
                cond = conj([cond, leaf_eq(payload(core)['op']['_d'], ADD_ASSIGN)])
            elif r.startswith('behaviour/') and not r.startswith(('behaviour/optional-chain', 'behaviour/call-apply', 'behaviour/unhoisted')):
                # the same lowering nested somewhere inside the statement's expression (`x = (o().p += s)`, `f(a[i()] += s)`)
                nested = nested_effectful_add_assign(core)
                if nested is not False:
                    r = 'behaviour/add-assign-target-evaluated-twice'
                    cond = conj([cond, nested])
            if (r, str(cond)) in seen:
                continue
            seen.add((r, str(cond)))
            out.append(Violation('C01', r, cond, detail))
    return out


# ------------------------------------------------------------------ C09(a): span discipline

def spans_in(v, acc):
    if isinstance(v, (list, tuple)):
        for x in v:
            spans_in(x, acc)
        return
    if not isinstance(v, dict) or is_lazy(v):
        return
    if v.get('_t') == 'Span':
        acc.add(span_key(v))
        return
    for x in v.values():
        spans_in(x, acc)


def check_C09_spans(in_view, out_view, er):
    """(1) every span in the output is a span of the input or the dummy span; (2) the nodes injected for a hook carry the
    dummy span or a span taken from the expression they instrument (never a span from elsewhere in the file)"""
    out = []
    sin = set()
    spans_in(in_view, sin)
    sout = set()
    spans_in(out_view, sout)
    dummy = ('0', '0')
    foreign = [s for s in sout if s not in sin and s != dummy and not (s[0].startswith('70'))]
    if foreign:
        out.append(Violation('C09', 'span/not-from-the-input', True, 'spans %s do not occur in the input' % (sorted(foreign)[:3],)))
    for sp, what, hi in er.inj:
        k = span_key(sp)
        if k == dummy:
            continue
        if hi is None:
            continue
        allowed = set()
        spans_in(er.hooks[hi]['R_erased'], allowed)
        # `x += y`: the synthesized addition carries the span of the assignment it replaces
        allowed.add(span_key(er.hooks[hi]['span']))
        if k not in allowed:
            out.append(Violation('C09', 'span/injected-%s-span-from-elsewhere' % what, True, 'injected %s node carries span %s, the instrumented expression has %s' % (what, k, sorted(allowed)[:4])))
    # (3) an identifier named like a temporary either has no position or a position inside the statement it is printed in
    # (temporary *names* recur in every statement of a block; a node shared between statements would resolve the later
    # uses to the earlier statement). A user identifier of that name trivially lies inside its own statement.
    bad = []
    in_stmt_spans = {}

    def stmt_span(v):
        if v.get('_t') == 'Stmt' and kind(v) not in (None, '?', 'Block') and isinstance(v.get('_0'), dict):
            inner = v['_0']
            if kind(v) == 'Decl' and isinstance(inner.get('_0'), dict):
                inner = inner['_0']
            sp = inner.get('span')
            if isinstance(sp, dict) and sp.get('_t') == 'Span' and not span_is_dummy(sp):
                return sp
        return None

    def index_in(v):
        if isinstance(v, (list, tuple)):
            for x in v:
                index_in(x)
            return
        if not isinstance(v, dict) or is_lazy(v):
            return
        sp = stmt_span(v)
        if sp is not None:
            acc = in_stmt_spans.setdefault(span_key(sp), set())
            spans_in(v, acc)
        for x in v.values():
            index_in(x)

    index_in(in_view)

    def walk(v, stmt):
        if isinstance(v, (list, tuple)):
            for x in v:
                walk(x, stmt)
            return
        if not isinstance(v, dict) or is_lazy(v):
            return
        sp = stmt_span(v)
        if sp is not None:
            stmt = span_key(sp)
        if v.get('_t') == 'Ident' and isinstance(v.get('span'), dict) and 'sym' in v and sym_is_temp(v['sym']) and stmt in in_stmt_spans:
            k = span_key(v['span'])
            # spans are compared as the input's own (possibly unordered) tags: a position is "inside" a statement iff the
            # input statement with that span contains a node carrying it
            if k != dummy and k in sin and k not in in_stmt_spans[stmt]:
                bad.append((k, stmt))
        for x in v.values():
            walk(x, stmt)

    walk(out_view, None)
    if bad:
        out.append(Violation('C09', 'span/temporary-carries-span-of-another-statement', True, 'a temporary at span %s is printed inside the statement spanning %s' % bad[0]))
    return out


# ------------------------------------------------------------------ C15: debug breakdown by tag

def hook_tag(er, h):
    """the telemetry tag the property prescribes for a hook: `+`, `+=`, `Tpl`, or the method's *source* name"""
    if h.get('tag') is not None:
        return h['tag']
    R = h['R']
    k = kind(R)
    if k == 'Bin':
        return '+'
    if k == 'Tpl':
        return 'Tpl'
    if k == 'Call':
        c = payload(R)['callee']
        if is_lazy(c) or c.get('_v') != 'Expr':
            return None
        callee = c['_0']
        if kind(callee) == 'Ident':
            return payload(callee)['sym']
        if kind(callee) == 'Member':
            F = payload(callee)['obj']
            if is_temp_ident(F):
                fr = er.raw_at_hook.get(id(h)) if hasattr(er, 'raw_at_hook') else None
                fr = fr if fr is not None else er.raw.get(temp_name(F))
                if fr is not None and kind(fr) == 'Member' and payload(fr)['prop'].get('_v') == 'Ident':
                    return payload(fr)['prop']['_0']['sym']
    return None


def check_C15_debug(er, status_view, out_view=None, in_view=None):
    out = []
    dup = (':duplicated-hook-site:' + duplicate_site_location(in_view, out_view)) if (out_view is not None and duplicated_hook_sites(out_view)) else ''
    tel = status_view['telemetry']
    if tel.get('_v') != 'Debug':
        return out
    dbg = tel['_0']['propagation_debug']
    setv = dbg['_fields'][0] if isinstance(dbg, dict) and '_fields' in dbg else None
    if setv is None:
        return out
    keys = [k.s for k in setv.keys]
    vals = list(setv.vals)
    tags = [hook_tag(er, h) for h in er.hooks]
    if any(t is None for t in tags):
        out.append(Violation('C15', 'debug/hook-with-unknown-tag', True, ''))
        return out
    total = 0
    for k, v in zip(keys, vals):
        cnt = 0
        for t in tags:
            c = leaf_eq(t, k)
            if c is True:
                cnt = cnt + 1
            elif c is not False:
                cnt = cnt + z3.If(c, 1, 0)
        c = leaf_eq(v, cnt) if not isinstance(cnt, z3.ExprRef) else (cnt == (v if isinstance(v, z3.ExprRef) else z3.IntVal(v)))
        if c is not True:
            out.append(Violation('C15', 'debug/tag-count-differs' + dup, neg(c), 'tag %s reported %s, hooks with that tag: %s' % (k, v, cnt)))
    for t in tags:
        alts = [leaf_eq(t, k) for k in keys]
        if any(a is True for a in alts):
            continue
        alts = [a for a in alts if a is not False]
        c = z3.Or(alts) if alts else False
        out.append(Violation('C15', 'debug/hook-tag-missing-from-breakdown' + dup, neg(c), 'no entry for tag %s' % (t,)))
    return out
