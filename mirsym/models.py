"""Models of external (std / swc / sourcemap) functions called from the repository's MIR.

Everything here is part of the trusted base and is listed in the evidence.  The
models are deliberately thin: containers are executed over concrete-length
lists, closures are run by the interpreter on their real MIR, strings map to z3
string terms, and functions that cannot be modelled faithfully are
nondeterministic stubs (harness-provided) or raise Unsupported.
"""
import re

import z3

import values as V
from values import Adt, Tup, VecV, StrV, Ptr, Cell, FnDef, Opaque, UNIT, load, deep_copy, deep_clone, is_sym

DUMMY_SP = None  # built lazily (needs defs)


def Unsupported(msg):
    from interp import Unsupported as U
    return U(msg)


def Panic(kind, site, msg=''):
    from interp import Panic as Pn
    return Pn(kind, site, msg)


class Transparent:
    """MaybeUninit / ManuallyDrop wrappers: every field projection stays on the same slot."""
    __slots__ = ('inner',)

    def __init__(self):
        self.inner = None

    @property
    def fields(self):
        return _TranspFields(self)


class _TranspFields:
    def __init__(self, t):
        self.t = t

    def __getitem__(self, i):
        if isinstance(self.t.inner, Transparent) or self.t.inner is None:
            return self.t
        return self.t

    def __setitem__(self, i, v):
        self.t.inner = v


def some(v):
    return Adt('Option', 1, [v])


def none():
    return Adt('Option', 0, [])


def ok(v):
    return Adt('Result', 0, [v])


def err(v):
    return Adt('Result', 1, [v])


def deref(v):
    while isinstance(v, Ptr):
        v = load(v)
    return v


def as_str(I, v):
    v = deref(v)
    if isinstance(v, StrV):
        return v
    if isinstance(v, Adt) and v.ty in ('PathBuf', 'Path', 'OsStr', 'OsString'):
        return v.fields[0]
    raise Unsupported('as_str %r' % (v,))


def zs(s):
    return s.z()


FREE_LEN = {}   # z3 ast id of a free string variable -> its symbolic length (Int)


def str_len(I, s):
    if s.concrete():
        return len(s.s.encode('utf8'))
    n = FREE_LEN.get(s.s.get_id())
    if n is not None:
        return n
    return z3.Length(s.s)   # mathematical integer: lengths are far below 2^64, no wrap-around possible


def mkspan(lo, hi):
    return Adt('Span', None, [Adt('BytePos', None, [lo]), Adt('BytePos', None, [hi])])


def dummy_sp():
    return mkspan(0, 0)


def opt_force(I, o):
    o = deref(o)
    if isinstance(o, Adt) and o.lazy is not None:
        I.force(o)
    return o


# ---------------------------------------------------------------- symbolic structural equality

def z_and(xs):
    xs = [x for x in xs if x is not True]
    if any(x is False for x in xs):
        return False
    if not xs:
        return True
    if len(xs) == 1:
        return xs[0]
    return z3.And(xs)


def sym_eq(I, a, b):
    """structural equality -> python bool or z3 Bool"""
    a = deref(a)
    b = deref(b)
    if isinstance(a, StrV) and isinstance(b, StrV):
        if a.concrete() and b.concrete():
            return a.s == b.s
        return a.z() == b.z()
    if isinstance(a, (int, bool)) and isinstance(b, (int, bool)):
        return a == b
    if is_sym(a) or is_sym(b):
        a, b = I.z_pair(a, b)
        return a == b
    if isinstance(a, Adt) and isinstance(b, Adt):
        if a.lazy is not None and b.lazy is not None and a.lazy.uid == b.lazy.uid:
            return True
        if a.lazy is not None:
            I.force(a)
        if b.lazy is not None:
            I.force(b)
        if a.ty != b.ty:
            return False
        conds = []
        if a.variant is not None or b.variant is not None:
            if isinstance(a.variant, int) and isinstance(b.variant, int):
                if a.variant != b.variant:
                    return False
            else:
                av, bv = I.z_pair(a.variant, b.variant)
                conds.append(av == bv)
        if len(a.fields) != len(b.fields):
            return False
        for x, y in zip(a.fields, b.fields):
            c = sym_eq(I, x, y)
            if c is False:
                return False
            conds.append(c)
        return z_and(conds)
    if isinstance(a, Tup) and isinstance(b, Tup):
        return z_and([sym_eq(I, x, y) for x, y in zip(a.fields, b.fields)])
    if isinstance(a, VecV) and isinstance(b, VecV):
        ai, bi = I.vec_items(a), I.vec_items(b)
        if len(ai) != len(bi):
            return False
        return z_and([sym_eq(I, x, y) for x, y in zip(ai, bi)])
    if a is b:
        return True
    if isinstance(a, float) and isinstance(b, float):
        return a == b
    raise Unsupported('sym_eq %r %r' % (a, b))


def elem_eq(I, ty_head, a, b):
    body = I.P.impls.get((ty_head, 'PartialEq', 'eq'))
    if body is not None:
        return I.run_body(body, [Ptr(Cell(a)), Ptr(Cell(b))], ty_head)
    return sym_eq(I, a, b)


def to_bool(I, c, label):
    if isinstance(c, bool):
        return c
    return I.ctx.branch(c, label)


# ---------------------------------------------------------------- iterators

class IterV:
    """Lazy iterator over a python generator; adapters call back into the interpreter for closures."""
    __slots__ = ('gen', 'kind')

    def __init__(self, gen, kind='iter'):
        self.gen = gen
        self.kind = kind

    def next(self):
        try:
            return next(self.gen)
        except StopIteration:
            return None


def get_iter(I, v):
    v0 = v
    if isinstance(v, Ptr):
        v = load(v)
    if isinstance(v, IterV):
        return v
    if isinstance(v, Adt) and v.ty == 'Range':
        # a Range used directly as an iterator ((0..n).map(..)): materialise it once and keep the iterator in place
        a, b = I.concretize_int(v.fields[0]), I.concretize_int(v.fields[1])
        it = iter_values(I, list(range(a, b)))
        if isinstance(v0, Ptr):
            I.store(v0.cell, v0.path, it)
        return it
    raise Unsupported('not an iterator: %r' % (v0,))


def iter_slice(I, p, by_ref=True):
    """iterate a Vec/slice behind pointer p yielding element pointers"""
    base = p
    vec = deref(p)
    items = I.vec_items(vec)
    if isinstance(base, Ptr):
        # element pointers relative to the vec's cell/path
        # find the Ptr that directly holds the VecV
        q = base
        while isinstance(load(q), Ptr):
            q = load(q)
        cell, path = q.cell, q.path

        def gen():
            i = 0
            while i < len(items):
                yield Ptr(cell, path + (('i', i),))
                i += 1
        return IterV(gen())

    def gen2():
        for x in items:
            yield Ptr(Cell(x))
    return IterV(gen2())


def iter_values(I, items):
    def gen():
        for x in items:
            yield x
    return IterV(gen())


# ---------------------------------------------------------------- hash containers

class SetV:
    """HashSet / HashMap as insertion-ordered association lists with symbolic key equality."""
    __slots__ = ('keys', 'vals', 'key_ty', 'is_map')

    def __init__(self, is_map, key_ty=None):
        self.keys = []
        self.vals = []
        self.is_map = is_map
        self.key_ty = key_ty


def set_find(I, s, key, label):
    for i, k in enumerate(s.keys):
        c = elem_eq(I, s.key_ty, k, key) if s.key_ty else sym_eq(I, k, key)
        if to_bool(I, c, label):
            return i
    return -1


# ---------------------------------------------------------------- format!

def decode_fmt_template(tpl):
    """rustc's compact fmt::Arguments template: returns list of ('lit', str) / ('arg', idx)."""
    out = []
    i = 0
    argi = 0
    n = len(tpl)
    while i < n:
        b = tpl[i]
        if b == 0:
            break
        if b < 0x80:
            out.append(('lit', bytes(tpl[i + 1:i + 1 + b]).decode('utf8')))
            i += 1 + b
        elif b == 0x80:
            # long literal: u16 length
            ln = tpl[i + 1] | (tpl[i + 2] << 8)
            out.append(('lit', bytes(tpl[i + 3:i + 3 + ln]).decode('utf8')))
            i += 3 + ln
        elif b == 0xc0:
            out.append(('arg', argi))
            argi += 1
            i += 1
        else:
            # placeholder with options: flags byte(s) follow.  bit layout (rustc 1.9x):
            # 0b11xx_xxxx ; bit0 flags u32, bit1 width u16, bit2 precision u16, bit3 arg index u16
            j = i + 1
            if b & 1:
                j += 4
            if b & 2:
                j += 2
            if b & 4:
                j += 2
            if b & 8:
                argi = tpl[j] | (tpl[j + 1] << 8)
                j += 2
            out.append(('arg', argi))
            argi += 1
            i = j
    return out


def display(I, v):
    """Display of a value as StrV"""
    v = deref(v)
    if isinstance(v, StrV):
        return v
    if isinstance(v, bool):
        return StrV('true' if v else 'false')
    if isinstance(v, int):
        return StrV(str(v))
    if is_sym(v):
        if z3.is_bv(v):
            return StrV(z3.IntToStr(z3.BV2Int(v)))
        if z3.is_int(v):
            return StrV(z3.IntToStr(v))
    if isinstance(v, Adt) and v.ty == 'FmtArgs':
        return v.fields[0]
    if isinstance(v, Adt) and v.ty == 'Cow':
        return display(I, v.fields[0])
    if isinstance(v, Adt) and v.ty in I.P.defs and hasattr(I.P.defs[v.ty], 'variants') and isinstance(v.variant, int):
        return StrV(I.P.defs[v.ty].variants[v.variant][0])
    if isinstance(v, Adt) and v.ty in ('PathBuf', 'Path'):
        return v.fields[0]
    if isinstance(v, Opaque):
        return StrV('<%s>' % v.kind)
    return StrV('<%s>' % (v.ty if isinstance(v, Adt) else type(v).__name__))


def str_concat(parts):
    if all(p.concrete() for p in parts):
        return StrV(''.join(p.s for p in parts))
    zparts = [p.z() for p in parts if not (p.concrete() and p.s == '')]
    if len(zparts) == 1:
        return StrV(zparts[0])
    return StrV(z3.Concat(*zparts))


# ---------------------------------------------------------------- constants

def const_model(I, p, base):
    last = base.split('::')[-1]
    if last == 'DUMMY_SP':
        return dummy_sp()
    if base.endswith('STATIC_MAX_LEVEL'):
        return Adt('LevelFilter', 5, [])
    if base.endswith('base64::prelude::STANDARD') or last == 'STANDARD':
        return Opaque('base64::STANDARD')
    if 'base64' in base and last in ('URL_SAFE', 'URL_SAFE_NO_PAD', 'STANDARD_NO_PAD'):
        return Opaque('base64::' + last)
    return None


# ---------------------------------------------------------------- dispatch

TRAIT = {}
PATH = {}


def trait(tr, method):
    def deco(f):
        TRAIT[(tr, method)] = f
        return f
    return deco


def path(*keys):
    def deco(f):
        for k in keys:
            PATH[k] = f
        return f
    return deco


def dispatch(I, info, args, frame):
    if info['kind'] == 'trait':
        key = (info['trait_head'], info['method'])
        f = TRAIT.get(key)
        if f is None:
            raise Unsupported('no model for trait call %s' % info['raw'])
        I.modelled.add('<_ as %s>::%s' % key)
        return f(I, info, args)
    segs = info['segs']
    if I.grammar is not None and hasattr(I.grammar, 'stubs'):
        st = I.grammar.stubs.get('::'.join(segs[-2:])) or I.grammar.stubs.get(segs[-1])
        if st is not None:
            I.modelled.add('stub:' + '::'.join(segs[-2:]))
            return st(I, info, args)
    for k in (tuple(segs[-2:]), (segs[-1],)):
        f = PATH.get(k)
        if f is not None:
            I.modelled.add('::'.join(k))
            return f(I, info, args)
    raise Unsupported('no model for %s' % info['raw'])


# ---------------------------------------------------------------- trait models

@trait('Clone', 'clone')
def _clone(I, info, args):
    v = load(args[0]) if isinstance(args[0], Ptr) else args[0]
    if info['self_head'] in ('Arc', 'Rc'):
        return v
    return deep_clone(v)


@trait('ToOwned', 'to_owned')
def _to_owned(I, info, args):
    v = deref(args[0]) if info['self_head'] not in ('Arc',) else load(args[0])
    return deep_clone(v)


@trait('Drop', 'drop')
def _drop(I, info, args):
    return UNIT


@trait('Deref', 'deref')
def _deref(I, info, args):
    sh = info['self_head']
    p = args[0]
    inner = load(p) if isinstance(p, Ptr) else p
    if sh in ('String', 'JsWord', 'Atom'):
        return inner
    if sh == 'Vec':
        return p
    if sh in ('Arc', 'Rc', 'Box'):
        return inner if isinstance(inner, Ptr) else p
    if sh == 'PathBuf':
        return p
    if sh == 'Cow':
        # Cow<str> / Cow<[T]>: both variants dereference to the borrowed form
        if isinstance(inner, Adt) and inner.ty == 'Cow':
            return inner.fields[0]
        return inner
    if sh == 'RefMulti':
        return Ptr(Cell(inner.fields[1])) if not isinstance(inner.fields[1], Ptr) else inner.fields[1]
    if sh == 'WithCtx':
        body = I.P.impls.get(('WithCtx', 'Deref', 'deref'))
        return I.run_body(body, args, 'WithCtx')
    raise Unsupported('Deref for %s' % info['self'])


@path(('Vec', 'as_slice'), ('Vec', 'as_mut_slice'))
def _vec_as_slice(I, info, args):
    return args[0]      # a slice view of a Vec is the Vec behind the same pointer


@trait('DerefMut', 'deref_mut')
def _deref_mut(I, info, args):
    return _deref(I, info, args)


@trait('PartialEq', 'eq')
def _eq(I, info, args):
    return sym_eq(I, args[0], args[1])


@trait('PartialEq', 'ne')
def _ne(I, info, args):
    c = sym_eq(I, args[0], args[1])
    return (not c) if isinstance(c, bool) else z3.Not(c)


@trait('PartialOrd', 'le')
def _le(I, info, args):
    a, b = deref(args[0]), deref(args[1])
    if isinstance(a, Adt) and a.ty == 'Level' and b.ty == 'LevelFilter':
        return (a.variant + 1) <= b.variant
    if isinstance(a, Adt) and a.ty == 'LevelFilter' and b.ty == 'LevelFilter':
        return a.variant <= b.variant
    return _cmp(I, a, b, 'le')


@trait('Into', 'into')
def _into(I, info, args):
    return convert(I, info['self'], info['trait'], args[0])


@trait('From', 'from')
def _from(I, info, args):
    src = re.search(r'From<(.*)>$', info['trait']).group(1)
    return convert(I, src, 'Into<%s>' % info['self'], args[0])


def convert(I, src, into_trait, v):
    from interp import type_head
    dst = re.search(r'Into<(.*)>$', into_trait).group(1)
    sh, dh = type_head(src), type_head(dst)
    if dh in ('JsWord', 'Atom', 'String'):
        return as_str(I, v)
    if dh == 'Cow':
        s = as_str(I, v)
        return Adt('Cow', 1 if sh == 'String' else 0, [s])
    if dh == 'PathBuf':
        return Adt('PathBuf', None, [as_str(I, v)])
    if sh == 'Box' and dh == 'Callee':
        return Adt('Callee', 2, [v])
    if sh == 'Expr' and dh == 'ExprOrSpread':
        return Adt('ExprOrSpread', None, [none(), Ptr(Cell(v), (), 'box')])
    if sh == 'Ident' and dh == 'IdentName':
        return Adt('IdentName', None, [v.fields[0], v.fields[2]])
    if sh == 'IdentName' and dh == 'Ident':
        return Adt('Ident', None, [v.fields[0], Adt('SyntaxContext', None, [0]), v.fields[1], False])
    if sh == 'SimpleAssignTarget' and dh == 'Box':
        # swc_ecma_ast: impl From<SimpleAssignTarget> for Box<Expr>
        if v.lazy is not None:
            I.force(v)
        names = [x[0] for x in I.P.defs['SimpleAssignTarget'].variants]
        vn = names[v.variant]
        ed = I.P.defs['Expr']
        if vn == 'Ident':
            bi = v.fields[0]
            e = Adt('Expr', ed.vindex('Ident'), [bi.fields[0]])
        else:
            e = Adt('Expr', ed.vindex(vn), [v.fields[0]])
        return Ptr(Cell(e), (), 'box')
    if sh == 'JsValue' or dh == 'JsValue':
        return Opaque('JsValue')
    if sh in ('u8', 'u16', 'u32', 'char') and dh in ('char', 'u32', 'u64', 'usize', 'u16'):
        return v        # integers and chars share one representation (code point)
    # swc_ecma_ast derives `From<Payload> for Enum` for its tuple variants (ast_node / FromVariant): Ident -> Expr::Ident, ...
    target = dh
    boxed_target = False
    if dh == 'Box':
        inner = re.search(r'Box<(.*)>$', dst.strip())
        if inner:
            target = type_head(inner.group(1))
            boxed_target = True
    d = I.P.defs.get(target)
    if d is not None and hasattr(d, 'variants'):
        for vi, (vn, fields, kindv) in enumerate(d.variants):
            if kindv == 'tuple' and len(fields) == 1:
                fty = fields[0][1].strip()
                fboxed = fty.startswith('Box<')
                fh = type_head(fty[4:-1]) if fboxed else type_head(fty)
                if fh == sh:
                    payload_v = Ptr(Cell(v), (), 'box') if fboxed and not isinstance(v, Ptr) else v
                    e = Adt(d.name, vi, [payload_v])
                    return Ptr(Cell(e), (), 'box') if boxed_target else e
    if sh == dh:
        return v
    raise Unsupported('conversion %s -> %s' % (src, dst))


def span_of(I, v):
    v = deref(v)
    if isinstance(v, Adt):
        if v.lazy is not None:
            I.force(v)
        d = I.P.defs.get(v.ty)
        if d is not None and not hasattr(d, 'variants'):
            for i, (fn, ft) in enumerate(d.fields):
                if fn == 'span':
                    return deep_copy(v.fields[i])
            return span_of(I, v.fields[0])
        if d is not None:
            if not v.fields:
                return dummy_sp()
            return span_of(I, v.fields[0])
    raise Unsupported('span_of %r' % (v,))


@trait('Spanned', 'span')
def _span(I, info, args):
    return span_of(I, args[0])


def dummy_of(I, ty):
    ed = I.P.defs
    if ty == 'Expr':
        return Adt('Expr', ed['Expr'].vindex('Invalid'), [Adt('Invalid', None, [dummy_sp()])])
    if ty == 'AssignExpr':
        return Adt('AssignExpr', None, [dummy_sp(), Adt('AssignOp', 0, []), Adt('AssignTarget', 0, [Adt('SimpleAssignTarget', ed['SimpleAssignTarget'].vindex('Invalid'), [Adt('Invalid', None, [dummy_sp()])])]), Ptr(Cell(dummy_of(I, 'Expr')), (), 'box')])
    if ty == 'MemberExpr':
        return Adt('MemberExpr', None, [dummy_sp(), Ptr(Cell(dummy_of(I, 'Expr')), (), 'box'), Adt('MemberProp', 0, [Adt('IdentName', None, [dummy_sp(), StrV('')])])])
    raise Unsupported('Take::dummy for %s' % ty)


@trait('Take', 'take')
def _take(I, info, args):
    p = args[0]
    old = load(p)
    I.store(p.cell, p.path, dummy_of(I, info['self_head']))
    return old


@trait('Take', 'map_with_mut')
def _map_with_mut(I, info, args):
    p = args[0]
    old = load(p)
    I.store(p.cell, p.path, dummy_of(I, info['self_head']))
    new = I.call_closure(args[1], [old])
    I.store(p.cell, p.path, new)
    return UNIT


@trait('ToString', 'to_string')
def _to_string(I, info, args):
    v = deref(args[0])
    if isinstance(v, Adt) and (v.ty, 'Display', 'fmt') in I.P.impls and v.ty == 'Status':
        return StrV(I.P.defs['Status'].variants[v.variant][0]) if isinstance(v.variant, int) else display_symbolic_enum(I, v)
    return display(I, v)


def display_symbolic_enum(I, v):
    names = [x[0] for x in I.P.defs[v.ty].variants]
    idx = I.ctx.choose([v.variant == i for i in range(len(names))], 'display-enum')
    return StrV(names[idx])


@trait('Default', 'default')
def _default(I, info, args):
    sh = info['self_head']
    if sh == 'String':
        return StrV('')
    if sh == 'bool':
        return False
    if sh == 'PrintArgs':
        # swc_compiler_base::PrintArgs::default()
        return Adt('PrintArgs', None, [none(), none(), none(), False, Opaque('SourceMapsConfig::default'), Opaque('DUMMY_NAMES'), none(), none(), False, StrV(''), Opaque('codegen::Config::default'), none()])
    if sh in ('EsSyntax',):
        return Opaque(sh)
    if sh in ('HashMap', 'BTreeMap'):
        return Adt('HashMap', None, [SetV(True, None)])
    if sh in ('HashSet', 'BTreeSet'):
        return Adt('HashSet', None, [SetV(False, None)])
    if sh == 'Vec':
        return VecV([])
    if sh in ('u8', 'u16', 'u32', 'u64', 'usize', 'i32', 'i64', 'isize'):
        return 0
    if sh == 'Option':
        return none()
    raise Unsupported('Default for %s' % sh)


@trait('Try', 'branch')
def _try_branch(I, info, args):
    v = opt_force(I, args[0])
    if v.ty == 'Option':
        if v.variant == 1:
            return Adt('ControlFlow', 0, [v.fields[0]])
        return Adt('ControlFlow', 1, [none()])
    if v.ty == 'Result':
        if v.variant == 0:
            return Adt('ControlFlow', 0, [v.fields[0]])
        return Adt('ControlFlow', 1, [err(v.fields[0])])
    raise Unsupported('Try::branch %r' % (v,))


@trait('FromResidual', 'from_residual')
def _from_residual(I, info, args):
    v = args[0]
    if v.ty == 'Option':
        return none()
    if v.ty == 'Result':
        return err(v.fields[0])
    raise Unsupported('from_residual')


@trait('Index', 'index')
def _index(I, info, args):
    p = args[0]
    items = I.vec_items(p)
    i = I.concretize_int(args[1])
    if i >= len(items):
        raise Panic('index-out-of-bounds', '/'.join(I.stack[-2:]), 'index %d len %d' % (i, len(items)))
    q = p
    while isinstance(load(q), Ptr):
        q = load(q)
    return Ptr(q.cell, q.path + (('i', i),))


@trait('IntoIterator', 'into_iter')
def _into_iter(I, info, args):
    v = args[0]
    sh = info['self_head']
    if isinstance(v, IterV):
        return v
    if isinstance(v, VecV):
        return iter_values(I, list(I.vec_items(v)))
    if isinstance(v, Adt) and v.ty == 'Range':
        a, b = v.fields
        a = I.concretize_int(a)
        b = I.concretize_int(b)
        return iter_values(I, list(range(a, b)))
    if isinstance(v, Ptr):
        inner = load(v)
        if isinstance(inner, IterV):
            return inner
        return iter_slice(I, v)
    raise Unsupported('into_iter %r' % (v,))


@trait('Iterator', 'next')
def _it_next(I, info, args):
    it = get_iter(I, args[0])
    x = it.next()
    return none() if x is None else some(x)


@trait('Iterator', 'any')
def _it_any(I, info, args):
    it = get_iter(I, args[0])
    clo = args[1]
    while True:
        x = it.next()
        if x is None:
            return False
        if to_bool(I, I.call_closure(clo, [x]), 'any'):
            return True


@trait('Iterator', 'all')
def _it_all(I, info, args):
    it = get_iter(I, args[0])
    clo = args[1]
    while True:
        x = it.next()
        if x is None:
            return True
        if not to_bool(I, I.call_closure(clo, [x]), 'all'):
            return False


@trait('Iterator', 'find')
def _it_find(I, info, args):
    it = get_iter(I, args[0])
    clo = args[1]
    while True:
        x = it.next()
        if x is None:
            return none()
        if to_bool(I, I.call_closure(clo, [Ptr(Cell(x))]), 'find'):
            return some(x)


@trait('Iterator', 'for_each')
def _it_for_each(I, info, args):
    it = get_iter(I, args[0])
    clo = args[1]
    while True:
        x = it.next()
        if x is None:
            return UNIT
        I.call_closure(clo, [x])


@trait('Iterator', 'map')
def _it_map(I, info, args):
    it = get_iter(I, args[0])
    clo = args[1]

    def gen():
        while True:
            x = it.next()
            if x is None:
                return
            yield I.call_closure(clo, [x])
    return IterV(gen())


@trait('Iterator', 'skip')
def _it_skip(I, info, args):
    it = get_iter(I, args[0])
    n = I.concretize_int(args[1])

    def gen():
        k = 0
        while True:
            x = it.next()
            if x is None:
                return
            if k >= n:
                yield x
            k += 1
    return IterV(gen())


@trait('Iterator', 'rev')
def _it_rev(I, info, args):
    it = get_iter(I, args[0])
    items = []
    while True:
        x = it.next()
        if x is None:
            break
        items.append(x)
    return iter_values(I, list(reversed(items)))


@trait('Iterator', 'cloned')
def _it_cloned(I, info, args):
    it = get_iter(I, args[0])

    def gen():
        while True:
            x = it.next()
            if x is None:
                return
            yield deep_clone(load(x))
    return IterV(gen())


@trait('Iterator', 'copied')
def _it_copied(I, info, args):
    return _it_cloned(I, info, args)


@trait('Iterator', 'collect')
def _it_collect(I, info, args):
    it = get_iter(I, args[0])
    items = []
    while True:
        x = it.next()
        if x is None:
            break
        items.append(x)
    mm = re.search(r'collect::<(.*)>\s*$', info['raw'])
    target = mm.group(1).strip() if mm else ''
    from interp import type_head
    th = type_head(target) if target else ''
    if th == 'String':
        # chars (code points) or string pieces
        parts = []
        for x in items:
            x = deref(x)
            if isinstance(x, StrV):
                parts.append(x)
            elif isinstance(x, int) or is_sym(x):
                parts.append(char_to_str(x))
            else:
                parts.append(as_str(I, x))
        return str_concat(parts) if parts else StrV('')
    if th in ('HashSet', 'BTreeSet'):
        s = SetV(False, None)
        for x in items:
            if set_find(I, s, x, 'collect::<HashSet>') < 0:
                s.keys.append(x)
        return Adt('HashSet', None, [s])
    if th in ('HashMap', 'BTreeMap'):
        s = SetV(True, None)
        for x in items:
            k, v = x.fields
            i = set_find(I, s, k, 'collect::<HashMap>')
            if i >= 0:
                s.vals[i] = v
            else:
                s.keys.append(k)
                s.vals.append(v)
        return Adt('HashMap', None, [s])
    if th == 'Option':
        out = []
        for x in items:
            o = opt_force(I, x)
            if o.variant == 0:
                return none()
            out.append(o.fields[0])
        return some(VecV(out))
    return VecV(items)


# ---------------------------------------------------------------- path models: Box / Vec / Option / String

@path(('Box', 'new'))
def _box_new(I, info, args):
    return Ptr(Cell(args[0]), (), 'box')


@path(('Box', 'new_uninit'))
def _box_new_uninit(I, info, args):
    return Ptr(Cell(Transparent()), (), 'box')


@path(('boxed', 'box_assume_init_into_vec_unsafe'))
def _box_into_vec(I, info, args):
    t = load(args[0])
    while isinstance(t, Transparent):
        t = t.inner
    return t


@path(('Arc', 'new'), ('Rc', 'new'))
def _arc_new(I, info, args):
    return Ptr(Cell(args[0]), (), 'arc')


@path(('Vec', 'new'), ('Vec', 'with_capacity'))
def _vec_new(I, info, args):
    return VecV([])


@path(('Vec', 'push'))
def _vec_push(I, info, args):
    I.vec_items(args[0]).append(args[1])
    return UNIT


@path(('Vec', 'insert'))
def _vec_insert(I, info, args):
    items = I.vec_items(args[0])
    i = I.concretize_int(args[1])
    if i > len(items):
        raise Panic('insert-out-of-bounds', '/'.join(I.stack[-2:]))
    items.insert(i, args[2])
    return UNIT


@path(('Vec', 'splice'))
def _vec_splice(I, info, args):
    """vec.splice(range, iter): performed eagerly (std performs it when the returned Splice is dropped, which the callers met so
    far do at once); returns the removed elements"""
    items = I.vec_items(args[0])
    r = deref(args[1])
    if not (isinstance(r, Adt) and r.ty == 'Range'):
        raise Unsupported('Vec::splice with %r' % (r,))
    a = I.concretize_int(r.fields[0])
    b = I.concretize_int(r.fields[1])
    if a > b or b > len(items):
        raise Panic('splice-out-of-bounds', '/'.join(I.stack[-2:]))
    it = get_iter(I, _into_iter(I, info, [args[2]]) if not isinstance(args[2], IterV) else args[2])
    new = []
    while True:
        x = it.next()
        if x is None:
            break
        new.append(x)
    removed = items[a:b]
    items[a:b] = new
    return iter_values(I, removed)


@path(('str', 'strip_prefix'))
def _strip_prefix(I, info, args):
    s = as_str(I, args[0])
    p = as_str(I, args[1])
    if s.concrete() and p.concrete():
        return some(StrV(s.s[len(p.s):])) if s.s.startswith(p.s) else none()
    c = _starts_with(I, info, args)
    if to_bool(I, c, 'strip_prefix'):
        n = str_len(I, p)
        return some(StrV(z3.SubString(s.z(), n, z3.Length(s.z()) - n)))
    return none()


class EntryV:
    """std::collections::hash_map::Entry: (map storage, key, index or -1)"""
    __slots__ = ('s', 'key', 'idx', 'vty')

    def __init__(self, s, key, idx, vty):
        self.s, self.key, self.idx, self.vty = s, key, idx, vty


@path(('HashMap', 'entry'), ('BTreeMap', 'entry'))
def _hm_entry(I, info, args):
    s = _setv(args[0])
    from mirparse import split_top
    mm = re.search(r'(?:Hash|BTree)Map::<(.*)>::entry', info['raw'])
    vty = split_top(mm.group(1))[1].strip() if mm and len(split_top(mm.group(1))) > 1 else None
    return EntryV(s, args[1], set_find(I, s, args[1], 'HashMap::entry'), vty)


def _entry_slot(e, make_default):
    if e.idx < 0:
        e.s.keys.append(e.key)
        e.s.vals.append(make_default())
        e.idx = len(e.s.keys) - 1
    return Ptr(Cell(VecV(e.s.vals)), (('i', e.idx),))


@path(('Entry', 'or_insert'))
def _entry_or_insert(I, info, args):
    return _entry_slot(args[0], lambda: args[1])


@path(('Entry', 'or_insert_with'))
def _entry_or_insert_with(I, info, args):
    return _entry_slot(args[0], lambda: I.call_closure(args[1], []))


@path(('Entry', 'or_default'))
def _entry_or_default(I, info, args):
    e = args[0]

    def dflt():
        from interp import type_head
        t = (e.vty or '').strip()
        h = type_head(t) if t else ''
        if h == 'HashSet':
            from mirparse import split_top
            inner = re.search(r'HashSet<(.*)>$', t)
            return Adt('HashSet', None, [SetV(False, type_head(split_top(inner.group(1))[0]) if inner else None)])
        if h == 'HashMap':
            return Adt('HashMap', None, [SetV(True, None)])
        if h == 'Vec':
            return VecV([])
        if h in ('String',):
            return StrV('')
        if h in ('u8', 'u16', 'u32', 'u64', 'usize', 'i32', 'i64', 'isize'):
            return 0
        if h == 'bool':
            return False
        raise Unsupported('Entry::or_default for value type %r' % (t,))
    return _entry_slot(e, dflt)


@path(('Entry', 'and_modify'))
def _entry_and_modify(I, info, args):
    e = args[0]
    if e.idx >= 0:
        I.call_closure(args[1], [Ptr(Cell(VecV(e.s.vals)), (('i', e.idx),))])
    return e


@path(('Vec', 'last'), ('slice', 'last'))
def _vec_last(I, info, args):
    items = I.vec_items(args[0])
    if not items:
        return none()
    q = args[0]
    if isinstance(q, VecV):
        return some(Ptr(Cell(q), (('i', len(items) - 1),)))
    while isinstance(load(q), Ptr):
        q = load(q)
    return some(Ptr(q.cell, q.path + (('i', len(items) - 1),)))


@path(('Vec', 'split_first'), ('slice', 'split_first'), ('Vec', 'split_last'), ('slice', 'split_last'))
def _split_first(I, info, args):
    items = I.vec_items(args[0])
    if not items:
        return none()
    q = args[0]
    if isinstance(q, VecV):
        q = Ptr(Cell(q))
    while isinstance(load(q), Ptr):
        q = load(q)
    first = info['segs'][-1] == 'split_first'
    idx = 0 if first else len(items) - 1
    rest = items[1:] if first else items[:-1]
    # the rest is handed out as a view sharing the element values (element identity is kept for reads)
    return some(Tup([Ptr(q.cell, q.path + (('i', idx),)), Ptr(Cell(VecV(rest)))]))


@path(('Vec', 'swap_remove'))
def _vec_swap_remove(I, info, args):
    items = I.vec_items(args[0])
    i = I.concretize_int(args[1])
    if i >= len(items):
        raise Panic('swap_remove-out-of-bounds', '/'.join(I.stack[-2:]))
    x = items[i]
    items[i] = items[-1]
    items.pop()
    return x


@path(('Vec', 'split_off'))
def _vec_split_off(I, info, args):
    items = I.vec_items(args[0])
    i = I.concretize_int(args[1])
    if i > len(items):
        raise Panic('split_off-out-of-bounds', '/'.join(I.stack[-2:]))
    tail = items[i:]
    del items[i:]
    return VecV(tail)


@path(('Vec', 'retain'))
def _vec_retain(I, info, args):
    items = I.vec_items(args[0])
    keep = [x for x in list(items) if to_bool(I, I.call_closure(args[1], [Ptr(Cell(x))]), 'retain')]
    items[:] = keep
    return UNIT


@path(('Vec', 'drain'))
def _vec_drain(I, info, args):
    items = I.vec_items(args[0])
    r = deref(args[1])
    if isinstance(r, Adt) and r.ty == 'RangeFull':
        a, b = 0, len(items)
    elif isinstance(r, Adt) and r.ty == 'Range':
        a, b = I.concretize_int(r.fields[0]), I.concretize_int(r.fields[1])
    elif isinstance(r, Adt) and r.ty == 'RangeFrom':
        a, b = I.concretize_int(r.fields[0]), len(items)
    elif isinstance(r, Adt) and r.ty == 'RangeTo':
        a, b = 0, I.concretize_int(r.fields[0])
    else:
        raise Unsupported('Vec::drain with %r' % (r,))
    if a > b or b > len(items):
        raise Panic('drain-out-of-bounds', '/'.join(I.stack[-2:]))
    removed = items[a:b]
    del items[a:b]
    return iter_values(I, removed)


@path(('Vec', 'append'))
def _vec_append(I, info, args):
    a = I.vec_items(args[0])
    b = I.vec_items(args[1])
    a.extend(b)
    del b[:]
    return UNIT


@path(('Vec', 'len'), ('slice', 'len'))
def _vec_len(I, info, args):
    return len(I.vec_items(args[0]))


@path(('Vec', 'is_empty'), ('slice', 'is_empty'))
def _vec_is_empty(I, info, args):
    return len(I.vec_items(args[0])) == 0


@path(('slice', 'iter'), ('slice', 'iter_mut'), ('Vec', 'iter'), ('Vec', 'iter_mut'))
def _slice_iter(I, info, args):
    return iter_slice(I, args[0])


@path(('slice', 'to_vec'))
def _to_vec(I, info, args):
    return VecV([deep_clone(x) for x in I.vec_items(args[0])])


@path(('slice', 'first'))
def _first(I, info, args):
    items = I.vec_items(args[0])
    if not items:
        return none()
    q = args[0]
    if isinstance(q, VecV):
        return some(Ptr(Cell(q), (('i', 0),)))      # a `&Vec` handed over by value (e.g. through Option<&Vec>::is_some_and)
    while isinstance(load(q), Ptr):
        q = load(q)
    return some(Ptr(q.cell, q.path + (('i', 0),)))


@path(('slice', 'contains'))
def _contains(I, info, args):
    items = I.vec_items(args[0])
    x = args[1]
    for it in items:
        if to_bool(I, sym_eq(I, it, x), 'contains'):
            return True
    return False


@path(('slice', 'get_unchecked'))
def _get_unchecked(I, info, args):
    items = I.vec_items(args[0])
    i = I.concretize_int(args[1])
    q = args[0]
    while isinstance(load(q), Ptr):
        q = load(q)
    return Ptr(q.cell, q.path + (('i', i),))


@path(('slice', 'join'))
def _join(I, info, args):
    items = I.vec_items(args[0])
    sep = as_str(I, args[1])
    parts = []
    for i, it in enumerate(items):
        if i:
            parts.append(sep)
        parts.append(as_str(I, it))
    return str_concat(parts) if parts else StrV('')


@path(('slice', 'concat'))
def _concat(I, info, args):
    items = I.vec_items(args[0])
    if items and isinstance(deref(items[0]), VecV):
        out = []
        for it in items:
            out.extend(deep_clone(x) for x in I.vec_items(it))
        return VecV(out)
    parts = [as_str(I, it) for it in items]
    return str_concat(parts) if parts else StrV('')


# Option ------------------------------------------------------------

def _opt(I, v):
    v = opt_force(I, v)
    if not (isinstance(v, Adt) and v.ty in ('Option',)):
        raise Unsupported('expected Option, got %r' % (v,))
    return v


@path(('Option', 'unwrap'), ('Option', 'expect'))
def _opt_unwrap(I, info, args):
    v = _opt(I, args[0])
    if v.variant == 0:
        raise Panic('unwrap-none', '/'.join(I.stack[-2:]))
    return v.fields[0]


@path(('Option', 'is_some'))
def _opt_is_some(I, info, args):
    return _opt(I, args[0]).variant == 1


@path(('Option', 'is_none'))
def _opt_is_none(I, info, args):
    return _opt(I, args[0]).variant == 0


@path(('Option', 'as_ref'), ('Option', 'as_mut'))
def _opt_as_ref(I, info, args):
    p = args[0]
    v = _opt(I, p)
    if v.variant == 0:
        return none()
    q = p
    while isinstance(load(q), Ptr):
        q = load(q)
    return some(Ptr(q.cell, q.path + (('f', 0),)))


@path(('Option', 'take'))
def _opt_take(I, info, args):
    p = args[0]
    old = _opt(I, p)
    q = p
    while isinstance(load(q), Ptr):
        q = load(q)
    I.store(q.cell, q.path, none())
    return old


@path(('Option', 'replace'))
def _opt_replace(I, info, args):
    p = args[0]
    old = _opt(I, p)
    q = p
    while isinstance(load(q), Ptr):
        q = load(q)
    I.store(q.cell, q.path, some(args[1]))
    return old


@path(('Option', 'insert'), ('Option', 'get_or_insert'), ('Option', 'get_or_insert_with'))
def _opt_get_or_insert(I, info, args):
    p = args[0]
    cur = _opt(I, p)
    q = p
    while isinstance(load(q), Ptr):
        q = load(q)
    m = info['segs'][-1]
    if m == 'insert' or cur.variant == 0:
        val = args[1] if m != 'get_or_insert_with' else I.call_closure(args[1], [])
        I.store(q.cell, q.path, some(val))
    return Ptr(q.cell, q.path + (('f', 0),))


@path(('Option', 'or'))
def _opt_or(I, info, args):
    v = _opt(I, args[0])
    return v if v.variant == 1 else opt_force(I, args[1])


@path(('Option', 'or_else'))
def _opt_or_else(I, info, args):
    v = _opt(I, args[0])
    return v if v.variant == 1 else opt_force(I, I.call_closure(args[1], []))


@path(('Option', 'xor'))
def _opt_xor(I, info, args):
    a, b = _opt(I, args[0]), _opt(I, args[1])
    if a.variant == 1 and b.variant == 0:
        return a
    if a.variant == 0 and b.variant == 1:
        return b
    return none()


@path(('Option', 'zip'))
def _opt_zip(I, info, args):
    a, b = _opt(I, args[0]), _opt(I, args[1])
    if a.variant == 1 and b.variant == 1:
        return some(Tup([a.fields[0], b.fields[0]]))
    return none()


@path(('Option', 'and'))
def _opt_and(I, info, args):
    a = _opt(I, args[0])
    return opt_force(I, args[1]) if a.variant == 1 else none()


@path(('Option', 'filter'))
def _opt_filter(I, info, args):
    v = _opt(I, args[0])
    if v.variant == 0:
        return v
    return v if to_bool(I, I.call_closure(args[1], [Ptr(Cell(v.fields[0]))]), 'Option::filter') else none()


@path(('Option', 'is_none_or'))
def _opt_is_none_or(I, info, args):
    v = _opt(I, args[0])
    if v.variant == 0:
        return True
    return I.call_closure(args[1], [v.fields[0]])


@path(('Option', 'ok_or_else'))
def _opt_ok_or_else(I, info, args):
    v = _opt(I, args[0])
    return ok(v.fields[0]) if v.variant == 1 else err(I.call_closure(args[1], []))


@path(('Option', 'iter'), ('Option', 'into_iter'), ('Option', 'iter_mut'))
def _opt_iter(I, info, args):
    p = args[0]
    v = _opt(I, p)
    if v.variant == 0:
        return iter_values(I, [])
    if info['segs'][-1] == 'into_iter' and not isinstance(p, Ptr):
        return iter_values(I, [v.fields[0]])
    q = p
    while isinstance(load(q), Ptr):
        q = load(q)
    return iter_values(I, [Ptr(q.cell, q.path + (('f', 0),))])


@path(('Option', 'as_deref'))
def _opt_as_deref(I, info, args):
    v = _opt(I, args[0])
    if v.variant == 0:
        return none()
    return some(deref(v.fields[0]))


@path(('Option', 'map'))
def _opt_map(I, info, args):
    v = _opt(I, args[0])
    if v.variant == 0:
        return none()
    return some(I.call_value(args[1], [v.fields[0]]))


@path(('Option', 'and_then'))
def _opt_and_then(I, info, args):
    v = _opt(I, args[0])
    if v.variant == 0:
        return none()
    return I.call_value(args[1], [v.fields[0]])


@path(('Option', 'map_or'))
def _opt_map_or(I, info, args):
    v = _opt(I, args[0])
    if v.variant == 0:
        return args[1]
    return I.call_value(args[2], [v.fields[0]])


@path(('Option', 'map_or_else'))
def _opt_map_or_else(I, info, args):
    v = _opt(I, args[0])
    if v.variant == 0:
        return I.call_value(args[1], [])
    return I.call_value(args[2], [v.fields[0]])


@path(('Option', 'unwrap_or'))
def _opt_unwrap_or(I, info, args):
    v = _opt(I, args[0])
    return v.fields[0] if v.variant == 1 else args[1]


@path(('Option', 'unwrap_or_else'))
def _opt_unwrap_or_else(I, info, args):
    v = _opt(I, args[0])
    return v.fields[0] if v.variant == 1 else I.call_value(args[1], [])


@path(('Option', 'unwrap_or_default'))
def _opt_unwrap_or_default(I, info, args):
    v = _opt(I, args[0])
    if v.variant == 1:
        return v.fields[0]
    if 'PathBuf' in info['raw']:
        return _mk_path('')
    if 'String' in info['raw']:
        return StrV('')
    if 'Vec<' in info['raw']:
        return VecV([])
    if 'bool' in info['raw']:
        return False
    raise Unsupported('unwrap_or_default for %s' % info['raw'])


@path(('Option', 'cloned'), ('Option', 'copied'))
def _opt_cloned(I, info, args):
    v = _opt(I, args[0])
    if v.variant == 0:
        return none()
    return some(deep_clone(deref(v.fields[0])))


@path(('Option', 'is_some_and'))
def _opt_is_some_and(I, info, args):
    v = _opt(I, args[0])
    if v.variant == 0:
        return False
    return I.call_value(args[1], [v.fields[0]])


@path(('Option', 'ok_or'))
def _opt_ok_or(I, info, args):
    v = _opt(I, args[0])
    return ok(v.fields[0]) if v.variant == 1 else err(args[1])


@path(('bool', 'then'))
def _bool_then(I, info, args):
    if to_bool(I, args[0], 'bool::then'):
        return some(I.call_value(args[1], []))
    return none()


@path(('bool', 'then_some'))
def _bool_then_some(I, info, args):
    if to_bool(I, args[0], 'bool::then_some'):
        return some(args[1])
    return none()


# Result -------------------------------------------------------------

def _res(I, v):
    v = opt_force(I, v)
    if not (isinstance(v, Adt) and v.ty == 'Result'):
        raise Unsupported('expected Result, got %r' % (v,))
    return v


@path(('Result', 'map'))
def _res_map(I, info, args):
    v = _res(I, args[0])
    return ok(I.call_value(args[1], [v.fields[0]])) if v.variant == 0 else v


@path(('Result', 'map_err'))
def _res_map_err(I, info, args):
    v = _res(I, args[0])
    return v if v.variant == 0 else err(I.call_value(args[1], [v.fields[0]]))


@path(('Result', 'ok'))
def _res_ok(I, info, args):
    v = _res(I, args[0])
    return some(v.fields[0]) if v.variant == 0 else none()


@path(('Result', 'or_else'))
def _res_or_else(I, info, args):
    v = _res(I, args[0])
    return v if v.variant == 0 else I.call_value(args[1], [v.fields[0]])


@path(('Result', 'and_then'))
def _res_and_then(I, info, args):
    v = _res(I, args[0])
    return I.call_value(args[1], [v.fields[0]]) if v.variant == 0 else v


@path(('Result', 'unwrap'), ('Result', 'expect'))
def _res_unwrap(I, info, args):
    v = _res(I, args[0])
    if v.variant == 1:
        raise Panic('unwrap-err', '/'.join(I.stack[-2:]))
    return v.fields[0]


@path(('Result', 'unwrap_or'))
def _res_unwrap_or(I, info, args):
    v = _res(I, args[0])
    return v.fields[0] if v.variant == 0 else args[1]


@path(('Result', 'is_ok'))
def _res_is_ok(I, info, args):
    return _res(I, args[0]).variant == 0


# strings --------------------------------------------------------------

@path(('JsWord', 'as_str'), ('Atom', 'as_str'), ('String', 'as_str'))
def _as_str(I, info, args):
    return as_str(I, args[0])


@path(('str', 'len'), ('String', 'len'))
def _str_len(I, info, args):
    return str_len(I, as_str(I, args[0]))


@path(('str', 'is_empty'), ('String', 'is_empty'))
def _str_is_empty(I, info, args):
    s = as_str(I, args[0])
    if s.concrete():
        return s.s == ''
    return z3.Length(s.s) == 0


@path(('str', 'starts_with'))
def _starts_with(I, info, args):
    s = as_str(I, args[0])
    p = as_str(I, args[1])
    if s.concrete() and p.concrete():
        return s.s.startswith(p.s)
    if p.concrete() and not s.concrete() and s.s.get_id() in I.ctx.dom:
        # finite-domain string: decide the prefix test on the domain (exact)
        dom = I.ctx.dom[s.s.get_id()]
        yes = [v for v in dom if v.startswith(p.s)]
        if not yes:
            return False
        if len(yes) == len(dom):
            return True
        return z3.Or([s.s == z3.StringVal(v) for v in yes]) if len(yes) > 1 else (s.s == z3.StringVal(yes[0]))
    return z3.PrefixOf(p.z(), s.z())


@path(('str', 'ends_with'))
def _ends_with(I, info, args):
    s = as_str(I, args[0])
    p = as_str(I, args[1])
    if s.concrete() and p.concrete():
        return s.s.endswith(p.s)
    return z3.SuffixOf(p.z(), s.z())


@path(('str', 'trim'))
def _trim(I, info, args):
    s = as_str(I, args[0])
    if s.concrete():
        return StrV(s.s.strip())
    if I.grammar is not None and hasattr(I.grammar, 'str_trim'):
        return I.grammar.str_trim(I, s)
    raise Unsupported('symbolic str::trim')


@path(('str', 'to_string'), ('str', 'to_owned'))
def _str_to_string(I, info, args):
    return as_str(I, args[0])


@path(('str', 'replace'))
def _str_replace(I, info, args):
    s = as_str(I, args[0])
    a = as_str(I, args[1])
    b = as_str(I, args[2])
    if s.concrete() and a.concrete() and b.concrete():
        return StrV(s.s.replace(a.s, b.s))
    # str::replace replaces every non-overlapping match, left to right = SMT-LIB str.replace_all (decided by cvc5; z3
    # answers `unknown` on this operator, so scenarios that reach this must discharge their queries with cvc5)
    ctx = z3.main_ctx()
    t = z3.SeqRef(z3.Z3_mk_seq_replace_all(ctx.ref(), s.z().as_ast(), a.z().as_ast(), b.z().as_ast()), ctx)
    I.ctx.notes['uses_replace_all'] = True
    return StrV(t)


@path(('fmt', 'format'), ('format',))
def _format(I, info, args):
    return args[0].fields[0]


@path(('must_use',), ('hint', 'must_use'))
def _must_use(I, info, args):
    return args[0]


@path(('Arguments', 'new'), ('Arguments', 'new_const'), ('Arguments', 'new_v1'))
def _args_new(I, info, args):
    tpl = I.vec_items(args[0])
    fa = I.vec_items(args[1]) if len(args) > 1 else []
    parts = []
    for kind, x in decode_fmt_template(bytes(tpl)):
        if kind == 'lit':
            parts.append(StrV(x))
        else:
            parts.append(fa[x].fields[0])
    return Adt('FmtArgs', None, [str_concat(parts) if parts else StrV('')])


@path(('Arguments', 'from_str'))
def _args_from_str(I, info, args):
    return Adt('FmtArgs', None, [as_str(I, args[0])])


@path(('Argument', 'new_display'))
def _arg_display(I, info, args):
    return Adt('FmtArg', None, [display(I, args[0])])


@path(('Argument', 'new_debug'))
def _arg_debug(I, info, args):
    return Adt('FmtArg', None, [StrV('<dbg>')])


@path(('Cow', 'into_owned'))
def _cow_into_owned(I, info, args):
    return args[0].fields[0]


# log -------------------------------------------------------------------

@path(('max_level',), ('log', 'max_level'))
def _max_level(I, info, args):
    return Adt('LevelFilter', 0, [])


@path(('mem', 'drop'))
def _mem_drop(I, info, args):
    I.drop_value(args[0])
    return UNIT


@path(('mem', 'replace'), ('replace',))
def _mem_replace(I, info, args):
    p = args[0]
    old = load(p)
    I.store(p.cell, p.path, args[1])
    return old


@path(('mem', 'take'), ('take',))
def _mem_take(I, info, args):
    p = args[0]
    old = load(p)
    if isinstance(old, VecV):
        I.store(p.cell, p.path, VecV([]))
    elif isinstance(old, StrV):
        I.store(p.cell, p.path, StrV(''))
    elif isinstance(old, Adt) and old.ty == 'Option':
        I.store(p.cell, p.path, none())
    else:
        raise Unsupported('mem::take %r' % (old,))
    return old


# swc_ecma_ast helpers (definitions: swc_ecma_ast `Is` derive and lib.rs) -------------

def _is_variant(enum, vname):
    def f(I, info, args):
        v = deref(args[0])
        if v.lazy is not None:
            I.force(v)
        return v.variant == I.P.defs[enum].vindex(vname)
    return f


def _as_variant(enum, vname):
    def f(I, info, args):
        p = args[0]
        v = deref(p)
        if v.lazy is not None:
            I.force(v)
        if v.variant != I.P.defs[enum].vindex(vname):
            return none()
        q = p
        while isinstance(load(q), Ptr):
            q = load(q)
        # `as_x()` returns a reference to the variant's field itself (a `&Box<T>` when the field is boxed)
        return some(Ptr(q.cell, q.path + (('f', 0),)))
    return f


def _snake(n):
    return re.sub(r'(?<!^)(?=[A-Z])', '_', n).lower()


def install_is_as(defs):
    for en, d in list(defs.items()):
        if '::' in en or not hasattr(d, 'variants') or en in ('Option', 'Result', 'Cow', 'ControlFlow', 'Ordering'):
            continue
        if all(v[2] == 'unit' for v in d.variants):
            continue
        for vn, _f, _k in d.variants:
            sn = _snake(vn)
            PATH.setdefault((en, 'is_' + sn), _is_variant(en, vn))
            PATH.setdefault((en, 'as_' + sn), _as_variant(en, vn))
            PATH.setdefault((en, 'as_mut_' + sn), _as_variant(en, vn))
    # #[is(name = "...")] overrides used by the repository
    PATH[('Expr', 'is_fn_expr')] = _is_variant('Expr', 'Fn')


@path(('Expr', 'is_ident_ref_to'))
def _is_ident_ref_to(I, info, args):
    v = deref(args[0])
    if v.lazy is not None:
        I.force(v)
    if v.variant != I.P.defs['Expr'].vindex('Ident'):
        return False
    return sym_eq(I, v.fields[0].fields[2], as_str(I, args[1]))


@path(('Stmt', 'is_use_strict'))
def _is_use_strict(I, info, args):
    # swc_ecma_ast::Stmt::is_use_strict: Stmt::Expr(ExprStmt{expr}) with expr = Lit::Str whose raw is "use strict" in either quote style
    v = deref(args[0])
    if v.lazy is not None:
        I.force(v)
    if v.variant != I.P.defs['Stmt'].vindex('Expr'):
        return False
    e = deref(v.fields[0].fields[1])
    if e.lazy is not None:
        I.force(e)
    if e.variant != I.P.defs['Expr'].vindex('Lit'):
        return False
    lit = e.fields[0]
    if lit.lazy is not None:
        I.force(lit)
    if lit.variant != I.P.defs['Lit'].vindex('Str'):
        return False
    raw = opt_force(I, lit.fields[0].fields[2])
    if raw.variant == 0:
        return False
    r = raw.fields[0]
    c1 = sym_eq(I, r, StrV('"use strict"'))
    c2 = sym_eq(I, r, StrV("'use strict'"))
    if isinstance(c1, bool) and isinstance(c2, bool):
        return c1 or c2
    return z3.Or(c1 if not isinstance(c1, bool) else z3.BoolVal(c1), c2 if not isinstance(c2, bool) else z3.BoolVal(c2))


@path(('SyntaxContext', 'empty'))
def _ctxt_empty(I, info, args):
    return Adt('SyntaxContext', None, [0])


@path(('IdentName', 'new'))
def _identname_new(I, info, args):
    return Adt('IdentName', None, [args[1], as_str(I, args[0])])


@path(('BlockStmtOrExpr', 'expr'))
def _bsoe_expr(I, info, args):
    v = args[0]
    if v.lazy is not None:
        I.force(v)
    if v.variant == I.P.defs['BlockStmtOrExpr'].vindex('Expr'):
        return some(v.fields[0])
    return none()


# hash containers ---------------------------------------------------------

def _key_ty(info):
    from interp import outer_generics, type_head
    raw = info['raw']
    m = re.search(r'Hash(?:Set|Map)::<(.*)>::\w+', raw)
    if m:
        from mirparse import split_top
        parts = split_top(m.group(1))
        return type_head(parts[0])
    return None


@path(('HashSet', 'new'))
def _hs_new(I, info, args):
    return Adt('HashSet', None, [SetV(False, _key_ty(info))])


@path(('HashMap', 'new'), ('BTreeMap', 'new'))
def _hm_new(I, info, args):
    return Adt('HashMap', None, [SetV(True, _key_ty(info))])


def _setv(v):
    v = deref(v)
    return v.fields[0]


@path(('HashSet', 'insert'))
def _hs_insert(I, info, args):
    s = _setv(args[0])
    if s.key_ty is None:
        s.key_ty = _key_ty(info)
    i = set_find(I, s, args[1], 'HashSet::insert')
    if i >= 0:
        return False
    s.keys.append(args[1])
    return True


@path(('HashSet', 'iter'))
def _hs_iter(I, info, args):
    s = _setv(args[0])
    order = I.grammar.iteration_order(I, len(s.keys), 'HashSet::iter') if I.grammar is not None and hasattr(I.grammar, 'iteration_order') else range(len(s.keys))
    return iter_values(I, [Ptr(Cell(s.keys[i])) for i in order])


@path(('HashMap', 'insert'), ('BTreeMap', 'insert'))
def _hm_insert(I, info, args):
    s = _setv(args[0])
    i = set_find(I, s, args[1], 'HashMap::insert')
    if i >= 0:
        old = s.vals[i]
        s.vals[i] = args[2]
        return some(old)
    s.keys.append(args[1])
    s.vals.append(args[2])
    return none()


@path(('HashMap', 'get'), ('HashMap', 'get_mut'), ('BTreeMap', 'get'), ('BTreeMap', 'get_mut'))
def _hm_get(I, info, args):
    s = _setv(args[0])
    i = set_find(I, s, deref(args[1]), 'HashMap::get')
    if i < 0:
        return none()
    cell = Cell(VecV(s.vals))
    return some(Ptr(cell, (('i', i),)))


@path(('HashMap', 'contains_key'), ('BTreeMap', 'contains_key'))
def _hm_contains(I, info, args):
    s = _setv(args[0])
    return set_find(I, s, deref(args[1]), 'HashMap::contains_key') >= 0


@path(('HashMap', 'iter'))
def _hm_iter(I, info, args):
    s = _setv(args[0])
    order = I.grammar.iteration_order(I, len(s.keys), 'HashMap::iter') if I.grammar is not None and hasattr(I.grammar, 'iteration_order') else range(len(s.keys))
    cell = Cell(VecV(s.vals))
    return iter_values(I, [Tup([Ptr(Cell(s.keys[i])), Ptr(cell, (('i', i),))]) for i in order])


@trait('Clone', 'clone')
def _clone2(I, info, args):
    v = load(args[0]) if isinstance(args[0], Ptr) else args[0]
    if info['self_head'] in ('Arc', 'Rc'):
        return v
    if isinstance(v, Adt) and v.ty in ('HashMap', 'HashSet'):
        s = v.fields[0]
        n = SetV(s.is_map, s.key_ty)
        n.keys = [deep_clone(k) for k in s.keys]
        n.vals = [deep_clone(x) for x in s.vals]
        return Adt(v.ty, None, [n])
    return deep_clone(v)


# ---------------------------------------------------------------- swc_ecma_visit traversal (schema from generated.rs)

_modpath_re = re.compile(r'\b(?:[a-z_][a-z0-9_]*::)+')


def norm_visit_ty(t):
    from interp import strip_lifetimes
    t = strip_lifetimes(t)
    t = _modpath_re.sub('', t)
    t = t.replace('JsWord', 'Atom')
    return t.strip()


class Visitor:
    def __init__(self, I, kind, vhead):
        self.I = I
        self.kind = kind
        self.vhead = vhead
        self.schema = I.P.schema[kind]
        self.trait = 'VisitMut' if kind == 'mut' else 'Visit'
        key = ('visit_reach', kind, vhead)
        cache = I.P.__dict__.setdefault('_visit_cache', {})
        if key not in cache:
            over = set(m for (ty, tr, m) in I.P.impls if ty == vhead and tr == self.trait)
            cache[key] = (over, {})
        self.over, self.reach_memo = cache[key]

    def reach(self, ty):
        """can visiting `ty` reach an overridden visitor method?"""
        memo = self.reach_memo
        if ty in memo:
            return memo[ty]
        memo[ty] = False  # cycle guard (optimistic false, fixed below)
        r = self._reach(ty)
        memo[ty] = r
        if r:
            return True
        return r

    def canon(self, ty):
        if ty not in self.schema and ty.startswith('Vec<') and ('[' + ty[4:-1] + ']') in self.schema:
            return '[' + ty[4:-1] + ']'
        return ty

    def _reach(self, ty):
        if ty.startswith('Box<'):
            return self.reach(ty[4:-1])
        ty = self.canon(ty)
        e = self.schema.get(ty)
        if e is None:
            return False
        if e['method'] in self.over:
            return True
        if e['kind'] == 'vec':
            return self.reach(e['elem'])
        if e['kind'] == 'match':
            for _n, calls in e['arms']:
                for _f, cty in calls:
                    if self.reach(cty):
                        return True
        return False

    def full_reach(self):
        # fixpoint to undo optimistic cycle guards
        changed = True
        while changed:
            changed = False
            for ty in list(self.reach_memo):
                if not self.reach_memo[ty] and self._reach(ty):
                    self.reach_memo[ty] = True
                    changed = True

    def visit_with(self, ty, nodeptr, visitor):
        I = self.I
        if ty.startswith('Box<'):
            b = load(nodeptr)
            return self.visit_with(ty[4:-1], Ptr(b.cell, b.path), visitor)
        ty = self.canon(ty)
        e = self.schema.get(ty)
        if e is None:
            raise Unsupported('visit schema has no entry for %s' % ty)
        if not self.reach(ty):
            return
        body = I.P.impls.get((self.vhead, self.trait, e['method']))
        if body is not None:
            I.run_body(body, [visitor, nodeptr], self.vhead)
        else:
            self.visit_children(ty, nodeptr, visitor)

    def visit_children(self, ty, nodeptr, visitor):
        I = self.I
        if ty.startswith('Box<'):
            b = load(nodeptr)
            return self.visit_children(ty[4:-1], Ptr(b.cell, b.path), visitor)
        ty = self.canon(ty)
        e = self.schema.get(ty)
        if e is None:
            raise Unsupported('visit schema has no entry for %s' % ty)
        k = e['kind']
        if k == 'leaf':
            return
        q = nodeptr
        while isinstance(load(q), Ptr):
            q = load(q)
        if k == 'vec':
            if not self.reach(e['elem']):
                return
            items = I.vec_items(q)
            i = 0
            while i < len(items):
                self.visit_with(e['elem'], Ptr(q.cell, q.path + (('i', i),)), visitor)
                i += 1
            return
        v = load(q)
        arms = e['arms']
        if not any(self.reach(cty) for _n, calls in arms for _f, cty in calls):
            return
        if v.lazy is not None:
            I.force(v)
        defs = I.P.defs
        if v.ty == 'Option':
            names = ['None', 'Some']
            arm = dict(arms).get(names[v.variant], [])
            for f, cty in arm:
                self.visit_with(cty, Ptr(q.cell, q.path + (('f', 0),)), visitor)
            return
        d = defs[v.ty]
        if hasattr(d, 'variants'):
            vn = d.variants[v.variant][0]
            vdef = d.variants[v.variant]
            arm = None
            for n, calls in arms:
                if n.split('::')[-1] == vn:
                    arm = calls
                    break
            if arm is None:
                raise Unsupported('visit schema: no arm for %s::%s' % (v.ty, vn))
            fnames = [fn for fn, _ in vdef[1]]
            for f, cty in arm:
                self.visit_with(cty, Ptr(q.cell, q.path + (('f', fnames.index(f)),)), visitor)
            return
        calls = arms[0][1]
        for f, cty in calls:
            self.visit_with(cty, Ptr(q.cell, q.path + (('f', d.index(f)),)), visitor)


def _visitor_for(I, info, kind):
    from interp import type_head
    m = re.match(r'^Visit(?:Mut)?With<(.*)>$', info['trait'])
    vhead = type_head(m.group(1))
    vis = Visitor(I, kind, vhead)
    if not vis.reach_memo.get('__full__'):
        # warm + fix cycles once per visitor type
        for ty in list(vis.schema):
            vis.reach(ty)
        vis.full_reach()
        vis.reach_memo['__full__'] = True
    return vis


@trait('VisitMutWith', 'visit_mut_children_with')
def _vmcw(I, info, args):
    _visitor_for(I, info, 'mut').visit_children(norm_visit_ty(info['self']), args[0], args[1])
    return UNIT


@trait('VisitMutWith', 'visit_mut_with')
def _vmw(I, info, args):
    _visitor_for(I, info, 'mut').visit_with(norm_visit_ty(info['self']), args[0], args[1])
    return UNIT


@trait('VisitWith', 'visit_children_with')
def _vcw(I, info, args):
    _visitor_for(I, info, 'ref').visit_children(norm_visit_ty(info['self']), args[0], args[1])
    return UNIT


@trait('VisitWith', 'visit_with')
def _vw(I, info, args):
    _visitor_for(I, info, 'ref').visit_with(norm_visit_ty(info['self']), args[0], args[1])
    return UNIT


# ---------------------------------------------------------------- more iterator adapters

@trait('Iterator', 'take_while')
def _it_take_while(I, info, args):
    it = get_iter(I, args[0])
    clo = args[1]

    def gen():
        while True:
            x = it.next()
            if x is None:
                return
            if not to_bool(I, I.call_closure(clo, [Ptr(Cell(x))]), 'take_while'):
                return
            yield x
    return IterV(gen())


@trait('Iterator', 'skip_while')
def _it_skip_while(I, info, args):
    it = get_iter(I, args[0])
    clo = args[1]

    def gen():
        skipping = True
        while True:
            x = it.next()
            if x is None:
                return
            if skipping and to_bool(I, I.call_closure(clo, [Ptr(Cell(x))]), 'skip_while'):
                continue
            skipping = False
            yield x
    return IterV(gen())


@trait('Iterator', 'filter')
def _it_filter(I, info, args):
    it = get_iter(I, args[0])
    clo = args[1]

    def gen():
        while True:
            x = it.next()
            if x is None:
                return
            if to_bool(I, I.call_closure(clo, [Ptr(Cell(x))]), 'filter'):
                yield x
    return IterV(gen())


@trait('Iterator', 'filter_map')
def _it_filter_map(I, info, args):
    it = get_iter(I, args[0])
    clo = args[1]

    def gen():
        while True:
            x = it.next()
            if x is None:
                return
            r = opt_force(I, I.call_closure(clo, [x]))
            if r.variant == 1:
                yield r.fields[0]
    return IterV(gen())


@trait('Iterator', 'flatten')
def _it_flatten(I, info, args):
    """flatten over Option items (by value, or by reference as yielded by iter()/iter_mut() of a Vec<Option<T>>)"""
    it = get_iter(I, args[0])

    def gen():
        while True:
            x = it.next()
            if x is None:
                return
            if isinstance(x, Ptr):
                o = _opt(I, x)
                if o.variant == 1:
                    q = x
                    while isinstance(load(q), Ptr):
                        q = load(q)
                    yield Ptr(q.cell, q.path + (('f', 0),))
                continue
            o = opt_force(I, x)
            if not (isinstance(o, Adt) and o.ty == 'Option'):
                raise Unsupported('Iterator::flatten over %r' % (o,))
            if o.variant == 1:
                yield o.fields[0]
    return IterV(gen())


@trait('Iterator', 'count')
def _it_count(I, info, args):
    a0 = load(args[0]) if isinstance(args[0], Ptr) else args[0]
    if isinstance(a0, CharsOf):
        return str_nchars(I, a0.s)
    it = get_iter(I, args[0])
    n = 0
    while it.next() is not None:
        n += 1
    return n


@trait('Iterator', 'enumerate')
def _it_enumerate(I, info, args):
    it = get_iter(I, args[0])

    def gen():
        i = 0
        while True:
            x = it.next()
            if x is None:
                return
            yield Tup([i, x])
            i += 1
    return IterV(gen())


@trait('Iterator', 'take')
def _it_take(I, info, args):
    it = get_iter(I, args[0])
    n = I.concretize_int(args[1])

    def gen():
        k = 0
        while k < n:
            x = it.next()
            if x is None:
                return
            yield x
            k += 1
    return IterV(gen())


@path(('iter', 'once'), ('once',))
def _iter_once(I, info, args):
    return iter_values(I, [args[0]])


@path(('iter', 'empty'), ('empty',))
def _iter_empty(I, info, args):
    return iter_values(I, [])


@path(('iter', 'repeat_n'), ('repeat_n',))
def _iter_repeat_n(I, info, args):
    n = I.concretize_int(args[1])
    return iter_values(I, [deep_clone(args[0]) for _ in range(n)])


@trait('Iterator', 'find_map')
def _it_find_map(I, info, args):
    it = get_iter(I, args[0])
    clo = args[1]
    while True:
        x = it.next()
        if x is None:
            return none()
        r = opt_force(I, I.call_closure(clo, [x]))
        if r.variant == 1:
            return r


@trait('Iterator', 'fold')
def _it_fold(I, info, args):
    it = get_iter(I, args[0])
    acc = args[1]
    clo = args[2]
    while True:
        x = it.next()
        if x is None:
            return acc
        acc = I.call_closure(clo, [acc, x])


@trait('Iterator', 'rposition')
def _it_rposition(I, info, args):
    it = get_iter(I, args[0])
    items = []
    while True:
        x = it.next()
        if x is None:
            break
        items.append(x)
    for i in range(len(items) - 1, -1, -1):
        if to_bool(I, I.call_closure(args[1], [items[i]]), 'rposition'):
            return some(i)
    return none()


@trait('Iterator', 'position')
def _it_position(I, info, args):
    it = get_iter(I, args[0])
    clo = args[1]
    i = 0
    while True:
        x = it.next()
        if x is None:
            return none()
        if to_bool(I, I.call_closure(clo, [x]), 'position'):
            return some(i)
        i += 1


@trait('Iterator', 'last')
def _it_last(I, info, args):
    it = get_iter(I, args[0])
    last = None
    while True:
        x = it.next()
        if x is None:
            break
        last = x
    return none() if last is None else some(last)


@trait('Iterator', 'nth')
def _it_nth(I, info, args):
    it = get_iter(I, args[0])
    n = I.concretize_int(args[1])
    x = None
    for _ in range(n + 1):
        x = it.next()
        if x is None:
            return none()
    return some(x)


@trait('Iterator', 'chain')
def _it_chain(I, info, args):
    a = get_iter(I, args[0])
    b = args[1]
    if not isinstance(b, IterV):
        b = _into_iter(I, info, [b])

    def gen():
        while True:
            x = a.next()
            if x is None:
                break
            yield x
        while True:
            x = b.next()
            if x is None:
                return
            yield x
    return IterV(gen())


@trait('Iterator', 'zip')
def _it_zip(I, info, args):
    a = get_iter(I, args[0])
    b = args[1]
    if not isinstance(b, IterV):
        b = _into_iter(I, info, [b])

    def gen():
        while True:
            x = a.next()
            y = b.next()
            if x is None or y is None:
                return
            yield Tup([x, y])
    return IterV(gen())


@trait('Iterator', 'peekable')
def _it_peekable(I, info, args):
    return args[0]


@trait('DoubleEndedIterator', 'rev')
def _it_rev2(I, info, args):
    return _it_rev(I, info, args)


@trait('DoubleEndedIterator', 'next_back')
def _it_next_back(I, info, args):
    it = get_iter(I, args[0])
    items = []
    while True:
        x = it.next()
        if x is None:
            break
        items.append(x)
    if not items:
        return none()
    last = items.pop()
    it.gen = iter(items)
    return some(last)


@trait('ExactSizeIterator', 'len')
def _it_len(I, info, args):
    it = get_iter(I, args[0])
    items = []
    while True:
        x = it.next()
        if x is None:
            break
        items.append(x)
    it.gen = iter(items)
    return len(items)


@path(('slice', 'last'))
def _slice_last(I, info, args):
    items = I.vec_items(args[0])
    if not items:
        return none()
    q = args[0]
    while isinstance(load(q), Ptr):
        q = load(q)
    return some(Ptr(q.cell, q.path + (('i', len(items) - 1),)))


@path(('slice', 'get'), ('Vec', 'get'))
def _slice_get(I, info, args):
    items = I.vec_items(args[0])
    i = I.concretize_int(args[1])
    if i >= len(items):
        return none()
    q = args[0]
    while isinstance(load(q), Ptr):
        q = load(q)
    return some(Ptr(q.cell, q.path + (('i', i),)))


@path(('Vec', 'extend'), ('Vec', 'extend_from_slice'))
def _vec_extend(I, info, args):
    a = I.vec_items(args[0])
    b = args[1]
    if isinstance(b, IterV):
        while True:
            x = b.next()
            if x is None:
                break
            a.append(x)
    else:
        a.extend(deep_clone(x) for x in I.vec_items(b))
    return UNIT


@path(('Vec', 'pop'))
def _vec_pop(I, info, args):
    a = I.vec_items(args[0])
    if not a:
        return none()
    return some(a.pop())


@path(('Vec', 'remove'))
def _vec_remove(I, info, args):
    a = I.vec_items(args[0])
    i = I.concretize_int(args[1])
    if i >= len(a):
        raise Panic('remove-out-of-bounds', '/'.join(I.stack[-2:]))
    return a.pop(i)


@path(('Vec', 'clear'))
def _vec_clear(I, info, args):
    del I.vec_items(args[0])[:]
    return UNIT


@path(('Vec', 'contains'))
def _vec_contains(I, info, args):
    return _contains(I, info, args)


@path(('Vec', 'first'))
def _vec_first(I, info, args):
    return _first(I, info, args)


@path(('Vec', 'truncate'))
def _vec_truncate(I, info, args):
    a = I.vec_items(args[0])
    n = I.concretize_int(args[1])
    del a[n:]
    return UNIT


# ---------------------------------------------------------------- swc SourceMap::lookup_char_pos (uninterpreted)

LINE_OF = z3.Function('line_of', z3.IntSort(), z3.IntSort())
COL_OF = z3.Function('col_of', z3.IntSort(), z3.IntSort())
COL_DISPLAY_OF = z3.Function('col_display_of', z3.IntSort(), z3.IntSort())


def _as_int_term(v):
    if isinstance(v, int):
        return z3.IntVal(v)
    if z3.is_bv(v):
        return z3.BV2Int(v)
    return v


@path(('SourceMap', 'lookup_char_pos'))
def _lookup_char_pos(I, info, args):
    pos = args[1]
    lo = pos.fields[0] if isinstance(pos, Adt) else pos
    t = _as_int_term(lo)
    return Adt('Loc', None, [Opaque('SourceFile'), LINE_OF(t), Adt('CharPos', None, [COL_OF(t)]), COL_DISPLAY_OF(t)])


@path(('str', 'to_owned'), ('String', 'to_owned'))
def _str_to_owned(I, info, args):
    return as_str(I, args[0])


# ---------------------------------------------------------------- paths (concrete strings; std::path semantics for '/'-separated unix paths)

def _path_str(I, v):
    v = deref(v)
    if isinstance(v, Adt) and v.ty in ('PathBuf', 'Path'):
        v = v.fields[0]
    if isinstance(v, StrV):
        if not v.concrete():
            raise Unsupported('symbolic path')
        return v.s
    raise Unsupported('path value %r' % (v,))


def _mk_path(s):
    return Adt('PathBuf', None, [StrV(s)])


@path(('Path', 'new'))
def _path_new(I, info, args):
    return Ptr(Cell(_mk_path(_path_str(I, args[0]))))


def _components(p):
    return [c for c in p.split('/') if c not in ('', '.')]


@path(('Path', 'to_path_buf'), ('Path', 'to_owned'), ('PathBuf', 'as_path'))
def _path_to_path_buf(I, info, args):
    return _mk_path(_path_str(I, args[0]))


@path(('str', 'split_whitespace'), ('str', 'split_ascii_whitespace'))
def _str_split_ws(I, info, args):
    s = as_str(I, args[0])
    if s.concrete():
        return iter_values(I, [StrV(x) for x in s.s.split()])
    raise Unsupported('symbolic str::split_whitespace')


@path(('str', 'split'), ('str', 'rsplit'))
def _str_split(I, info, args):
    s = as_str(I, args[0])
    p = deref(args[1])
    if isinstance(p, int):
        p = StrV(chr(p))
    p = as_str(I, p)
    if s.concrete() and p.concrete() and p.s:
        parts = s.s.split(p.s)
        if info['segs'][-1] == 'rsplit':
            parts = parts[::-1]
        return iter_values(I, [StrV(x) for x in parts])
    raise Unsupported('symbolic str::split')


@path(('str', 'split_once'), ('str', 'rsplit_once'))
def _split_once(I, info, args):
    s = as_str(I, args[0])
    p = as_str(I, args[1])
    if s.concrete() and p.concrete():
        i = s.s.find(p.s) if info['segs'][-1] == 'split_once' else s.s.rfind(p.s)
        if i < 0:
            return none()
        return some(Tup([StrV(s.s[:i]), StrV(s.s[i + len(p.s):])]))
    raise Unsupported('symbolic str::split_once')


@path(('Path', 'parent'), ('PathBuf', 'parent'))
def _path_parent(I, info, args):
    p = _path_str(I, args[0])
    comps = _components(p)
    if not comps:
        return none()          # "" and "/" have no parent
    head = '/'.join(comps[:-1])
    parent = ('/' + head) if p.startswith('/') else head
    return some(Ptr(Cell(_mk_path(parent))))


@path(('Path', 'is_absolute'), ('PathBuf', 'is_absolute'))
def _path_is_abs(I, info, args):
    return _path_str(I, args[0]).startswith('/')


@path(('Path', 'join'), ('PathBuf', 'join'))
def _path_join(I, info, args):
    a = _path_str(I, args[0])
    b = _path_str(I, args[1])
    if b.startswith('/'):
        return _mk_path(b)
    if a == '' or a.endswith('/'):
        return _mk_path(a + b)
    return _mk_path(a + '/' + b)


@path(('Path', 'file_name'))
def _path_file_name(I, info, args):
    p = _path_str(I, args[0])
    comps = [c for c in p.split('/') if c != '']
    comps = [c for c in comps if c != '.']
    if not comps or comps[-1] == '..':
        return none()
    return some(Adt('OsStr', None, [StrV(comps[-1])]))


@path(('OsStr', 'to_str'), ('Path', 'to_str'))
def _osstr_to_str(I, info, args):
    return some(as_str(I, args[0]))


@path(('str', 'get'))
def _str_get(I, info, args):
    s = as_str(I, args[0])
    r = args[1]
    if not s.concrete():
        raise Unsupported('symbolic str::get')
    if isinstance(r, Adt) and r.ty == 'RangeFrom':
        start = I.concretize_int(r.fields[0])
        b = s.s.encode('utf8')
        if start > len(b):
            return none()
        try:
            return some(StrV(b[start:].decode('utf8')))
        except UnicodeDecodeError:
            return none()
    raise Unsupported('str::get with %r' % (r,))


@path(('Error', 'new'), ('Error', 'msg'), ('error', 'new'), ('error', 'msg'))
def _anyhow_new(I, info, args):
    return Opaque('anyhow::Error')


@path(('DashMap', 'iter'))
def _dashmap_iter(I, info, args):
    dm = deref(args[0])
    buckets = dm.fields[0]
    n = len(buckets)
    order = I.grammar.iteration_order(I, n, 'DashMap::iter') if I.grammar is not None and hasattr(I.grammar, 'iteration_order') else list(range(n))
    return iter_values(I, [Adt('RefMulti', None, [buckets[i][0], buckets[i][1]]) for i in order])


@path(('RefMulti', 'key'))
def _refmulti_key(I, info, args):
    rm = deref(args[0])
    return Ptr(Cell(rm.fields[0]))


def _ord_val(v):
    v = deref(v)
    if isinstance(v, Adt) and v.ty in ('BytePos', 'CharPos') and len(v.fields) == 1:
        return v.fields[0]
    if isinstance(v, (int, bool)) or is_sym(v):
        return v
    raise Unsupported('ordering of %r' % (v,))


def _cmp(I, a, b, op):
    da, db = deref(a), deref(b)
    if isinstance(da, StrV) or isinstance(db, StrV) or (isinstance(da, Adt) and da.ty in ('Atom', 'JsWord', 'String')):
        # strings order byte-wise (lexicographically); symbolic strings use the solver's lexicographic order
        sa, sb = as_str(I, da), as_str(I, db)
        if sa.concrete() and sb.concrete():
            x, y = sa.s.encode('utf8'), sb.s.encode('utf8')
            return {'lt': x < y, 'le': x <= y, 'gt': x > y, 'ge': x >= y}[op]
        za, zb = sa.z(), sb.z()
        return {'lt': za < zb, 'le': za <= zb, 'gt': zb < za, 'ge': zb <= za}[op]
    a, b = _ord_val(a), _ord_val(b)
    if isinstance(a, int) and isinstance(b, int):
        return {'lt': a < b, 'le': a <= b, 'gt': a > b, 'ge': a >= b}[op]
    a, b = I.z_pair(a, b)
    if z3.is_bv(a):
        return {'lt': z3.ULT(a, b), 'le': z3.ULE(a, b), 'gt': z3.UGT(a, b), 'ge': z3.UGE(a, b)}[op]
    return {'lt': a < b, 'le': a <= b, 'gt': a > b, 'ge': a >= b}[op]


@trait('PartialOrd', 'lt')
def _lt(I, info, args):
    return _cmp(I, args[0], args[1], 'lt')


@trait('PartialOrd', 'gt')
def _gt(I, info, args):
    return _cmp(I, args[0], args[1], 'gt')


@trait('PartialOrd', 'ge')
def _ge(I, info, args):
    return _cmp(I, args[0], args[1], 'ge')


@path(('str', 'as_bytes'), ('String', 'as_bytes'))
def _as_bytes(I, info, args):
    return as_str(I, args[0])      # byte view of the same string (only handed on to stubs)


@path(('String', 'from_utf8'))
def _from_utf8(I, info, args):
    v = deref(args[0])
    if isinstance(v, StrV):
        return ok(v)
    raise Unsupported('String::from_utf8 of %r' % (v,))


B64 = z3.Function('base64_standard', z3.StringSort(), z3.StringSort())


B64_OTHER = {}


@trait('Engine', 'encode')
def _b64_encode(I, info, args):
    s = as_str(I, args[1])
    eng = load(args[0]) if isinstance(args[0], Ptr) else args[0]
    kind = eng.kind if isinstance(eng, Opaque) else 'base64::STANDARD'
    if kind != 'base64::STANDARD':
        # another alphabet / padding: a different (uninterpreted) function of the input
        f = B64_OTHER.setdefault(kind, z3.Function('base64_' + kind.split('::')[-1].lower(), z3.StringSort(), z3.StringSort()))
        return StrV(f(s.z()))
    if s.concrete():
        import base64
        return StrV(base64.b64encode(s.s.encode('utf8')).decode('ascii'))
    return StrV(B64(s.z()))


# ---------------------------------------------------------------- chars / String building (rnd_string)

class CharsOf:
    """str::chars() of a string whose contents are abstract: only counting is supported"""
    __slots__ = ('s',)

    def __init__(self, s):
        self.s = s


def str_nchars(I, s):
    """number of characters of a string with abstract contents: between half its byte length (witnesses use 1- and 2-byte
    characters) and its byte length"""
    key = s.s.get_id()
    cache = I.ctx.notes.setdefault('nchars_map', {})     # per path: the constraint lives in this path's solver
    if key not in cache:
        n = str_len(I, s)
        v = I.ctx.var('nchars!%d' % len(I.ctx.notes.setdefault('nchars', [])), z3.IntSort())
        I.ctx.add(z3.And(v <= n, 2 * v >= n), dom=False)
        for (s2, v2) in I.ctx.notes['nchars']:
            I.ctx.add(z3.Implies(s.s == s2, v == v2), dom=False)       # equal strings have equally many characters
        I.ctx.notes['nchars'].append((s.s, v))
        cache[key] = v
    return cache[key]


@path(('str', 'chars'))
def _str_chars(I, info, args):
    s = as_str(I, args[0])
    if not s.concrete():
        return CharsOf(s)
    return iter_values(I, [ord(c) for c in s.s])


@path(('String', 'with_capacity'), ('String', 'new'))
def _string_new(I, info, args):
    return StrV('')


def char_to_str(c):
    if isinstance(c, int):
        return StrV(chr(c))
    return StrV(z3.StrFromCode(c if z3.is_int(c) else z3.BV2Int(c)))


@path(('String', 'push'))
def _string_push(I, info, args):
    p = args[0]
    cur = load(p)
    I.ctx.notes.setdefault('pushed_chars', []).append(args[1])
    I.store(p.cell, p.path, str_concat([cur, char_to_str(args[1])]))
    return UNIT


@path(('String', 'push_str'))
def _string_push_str(I, info, args):
    p = args[0]
    cur = load(p)
    I.store(p.cell, p.path, str_concat([cur, as_str(I, args[1])]))
    return UNIT


@path(('str', 'to_uppercase'), ('str', 'to_lowercase'), ('String', 'to_lowercase'), ('String', 'to_uppercase'))
def _str_case(I, info, args):
    s = as_str(I, args[0])
    if not s.concrete():
        raise Unsupported('symbolic case conversion')
    return StrV(s.s.upper() if info['segs'][-1] == 'to_uppercase' else s.s.lower())


def _get_unchecked_sym(I, info, args):
    items = I.vec_items(args[0])
    idx = args[1]
    if isinstance(idx, int):
        q = args[0]
        while isinstance(load(q), Ptr):
            q = load(q)
        return Ptr(q.cell, q.path + (('i', idx),))
    # symbolic index into a concrete table: the element as an if-then-else term
    zi = idx if z3.is_int(idx) else z3.BV2Int(idx)
    t = z3.IntVal(items[-1])
    for k in range(len(items) - 2, -1, -1):
        t = z3.If(zi == k, z3.IntVal(items[k]), t)
    return Ptr(Cell(t))


PATH[('slice', 'get_unchecked')] = _get_unchecked_sym


# ---------------------------------------------------------------- integer operator traits (through references)

def _num(v):
    v = deref(v)
    if isinstance(v, (int, bool)) or is_sym(v):
        return v
    raise Unsupported('arithmetic on %r' % (v,))


@trait('Add', 'add')
def _op_add(I, info, args):
    da, db = deref(args[0]), deref(args[1])
    if isinstance(da, Adt) and da.ty in ('BytePos', 'CharPos') and isinstance(db, Adt) and db.ty == da.ty:
        x, y = da.fields[0], db.fields[0]
        if isinstance(x, int) and isinstance(y, int):
            return Adt(da.ty, None, [x + y])
        x, y = I.z_pair(x, y)
        return Adt(da.ty, None, [x + y])
    a, b = _num(args[0]), _num(args[1])
    if isinstance(a, int) and isinstance(b, int):
        r = a + b
        if 'u32' in info['self'] and r >= (1 << 32):
            raise Panic('add-overflow', '/'.join(I.stack[-2:]))
        return r
    a, b = I.z_pair(a, b)
    return a + b


@trait('Sub', 'sub')
def _op_sub(I, info, args):
    a, b = _num(args[0]), _num(args[1])
    if isinstance(a, int) and isinstance(b, int):
        if a - b < 0 and info['self'].lstrip('&').startswith('u'):
            raise Panic('sub-overflow', '/'.join(I.stack[-2:]))
        return a - b
    a, b = I.z_pair(a, b)
    return a - b


@trait('AddAssign', 'add_assign')
def _op_add_assign(I, info, args):
    p = args[0]
    I.store(p.cell, p.path, _op_add(I, info, [load(p), args[1]]))
    return UNIT


# ---------------------------------------------------------------- swc_common::Span helpers

def _span(v):
    v = deref(v)
    if not (isinstance(v, Adt) and v.ty == 'Span'):
        raise Unsupported('expected Span, got %r' % (v,))
    return v


@path(('Span', 'shrink_to_lo'))
def _span_shrink_lo(I, info, args):
    s = _span(args[0])
    return Adt('Span', None, [deep_copy(s.fields[0]), deep_copy(s.fields[0])])


@path(('Span', 'shrink_to_hi'))
def _span_shrink_hi(I, info, args):
    s = _span(args[0])
    return Adt('Span', None, [deep_copy(s.fields[1]), deep_copy(s.fields[1])])


@path(('Span', 'lo'))
def _span_lo(I, info, args):
    return deep_copy(_span(args[0]).fields[0])


@path(('Span', 'hi'))
def _span_hi(I, info, args):
    return deep_copy(_span(args[0]).fields[1])


@path(('Span', 'with_lo'))
def _span_with_lo(I, info, args):
    s = _span(args[0])
    return Adt('Span', None, [deep_copy(deref(args[1])), deep_copy(s.fields[1])])


@path(('Span', 'with_hi'))
def _span_with_hi(I, info, args):
    s = _span(args[0])
    return Adt('Span', None, [deep_copy(s.fields[0]), deep_copy(deref(args[1]))])


@path(('Span', 'to'), ('Span', 'between'), ('Span', 'until'))
def _span_to(I, info, args):
    a, b = _span(args[0]), _span(args[1])
    return Adt('Span', None, [deep_copy(a.fields[0]), deep_copy(b.fields[1])])


@path(('Span', 'new'))
def _span_new(I, info, args):
    return Adt('Span', None, [deep_copy(deref(args[0])), deep_copy(deref(args[1]))])


@path(('Span', 'is_dummy'))
def _span_is_dummy(I, info, args):
    s = _span(args[0])
    return sym_eq(I, s, dummy_sp())
