// Appended by /verif to a scratch copy of /repo/src/lib.rs (never committed to /repo).
// Native replay driver: runs the real rewrite_js / print_js on concrete inputs produced from
// solver models, one JSON request per line on stdin, one JSON answer per line on stdout.
pub mod verif_replay {
    use crate::rewriter::{generate_prefix_stmts, print_js, rewrite_js, Config};
    use crate::telemetry::{Telemetry, TelemetryVerbosity};
    use crate::visitor::csi_methods::{CsiMethod, CsiMethods};
    use serde_json::{json, Value};
    use std::io::{BufRead, Read, Write};
    use std::path::{Path, PathBuf};

    struct MemReader {
        files: std::collections::HashMap<String, Vec<u8>>,
        parent_none: bool,
    }
    impl crate::util::FileReader<std::io::Cursor<Vec<u8>>> for MemReader {
        fn read(&self, path: &Path) -> std::io::Result<std::io::Cursor<Vec<u8>>>
        where
            std::io::Cursor<Vec<u8>>: Read,
        {
            match self.files.get(path.to_str().unwrap_or("")) {
                Some(b) => Ok(std::io::Cursor::new(b.clone())),
                None => Err(std::io::Error::new(std::io::ErrorKind::NotFound, "no such file")),
            }
        }
        fn parent(&self, path: &Path) -> Option<PathBuf> {
            if self.parent_none {
                None
            } else {
                path.parent().map(PathBuf::from)
            }
        }
    }

    fn config_from(v: &Value) -> Config {
        let methods: Vec<CsiMethod> = v["methods"]
            .as_array()
            .map(|a| {
                a.iter()
                    .map(|m| {
                        CsiMethod::new(
                            m["src"].as_str().unwrap_or("").to_string(),
                            m["dst"].as_str().map(|s| s.to_string()),
                            m["operator"].as_bool().unwrap_or(false),
                            m["allowed_without_callee"].as_bool().unwrap_or(false),
                        )
                    })
                    .collect()
            })
            .unwrap_or_default();
        let csi = if v["methods"].is_null() { CsiMethods::empty() } else { CsiMethods::new(&methods) };
        let prefix_code = if let Some(pc) = v["prologue_code"].as_str() {
            crate::rewriter::verif_parse_stmts(pc.to_string())
        } else if v["prologue"].as_bool().unwrap_or(false) {
            generate_prefix_stmts(&csi)
        } else {
            Vec::new()
        };
        Config {
            chain_source_map: v["chain"].as_bool().unwrap_or(false),
            print_comments: v["comments"].as_bool().unwrap_or(false),
            local_var_prefix: v["prefix"].as_str().unwrap_or("test").to_string(),
            csi_methods: csi,
            verbosity: TelemetryVerbosity::parse(v["verbosity"].as_str().map(|s| s.to_string())),
            literals: v["literals"].as_bool().unwrap_or(false),
            file_prefix_code: prefix_code,
        }
    }

    fn handle(req: &Value) -> Value {
        let op = req["op"].as_str().unwrap_or("rewrite");
        let code = req["code"].as_str().unwrap_or("").to_string();
        let file = req["file"].as_str().unwrap_or("test.js").to_string();
        if op == "print_js" {
            // print_js(code, source_map, {source: None, source_map_comment}, config)
            let config = config_from(&req["config"]);
            let osm = crate::rewriter::OriginalSourceMap {
                source: None,
                source_map_comment: req["comment"].as_str().map(|s| s.to_string()),
            };
            let out = print_js(&code, req["source_map"].as_str().unwrap_or(""), &osm, &config).into_owned();
            return json!({"ok": true, "content": out});
        }
        if op == "normalize" {
            // parse + print with the same parser options, no transformation: used to compare ASTs textually
            let cfg = config_from(&json!({"methods": null}));
            return match crate::rewriter::verif_normalize(code, &file, &cfg) {
                Ok(c) => json!({"ok": true, "code": c}),
                Err(e) => json!({"ok": false, "err": format!("{e}")}),
            };
        }
        let config = config_from(&req["config"]);
        let mut files = std::collections::HashMap::new();
        if let Some(obj) = req["files"].as_object() {
            for (k, v) in obj {
                files.insert(k.clone(), v.as_str().unwrap_or("").as_bytes().to_vec());
            }
        }
        let reader = MemReader { files, parent_none: req["parent_none"].as_bool().unwrap_or(false) };
        let res = std::panic::catch_unwind(std::panic::AssertUnwindSafe(|| rewrite_js(code, &file, &config, &reader)));
        match res {
            Err(p) => {
                let msg = if let Some(s) = p.downcast_ref::<&str>() { s.to_string() } else if let Some(s) = p.downcast_ref::<String>() { s.clone() } else { "panic".to_string() };
                json!({"ok": false, "panic": true, "err": msg})
            }
            Ok(Err(e)) => json!({"ok": false, "panic": false, "err": format!("{e}")}),
            Ok(Ok(out)) => {
                let content = print_js(&out.code, &out.source_map, &out.original_source_map, &config).into_owned();
                let (status, count, debug) = match &out.transform_status {
                    Some(ts) => (
                        ts.status.to_string().to_lowercase(),
                        ts.telemetry.get_instrumented_propagation(),
                        ts.telemetry.get_propagation_debug(),
                    ),
                    None => ("none".to_string(), 0, None),
                };
                json!({
                    "ok": true,
                    "code": out.code,
                    "source_map": out.source_map,
                    "content": content,
                    "status": status,
                    "instrumented_propagation": count,
                    "propagation_debug": debug,
                    "literals": out.literals_result.map(|l| serde_json::to_value(&l).unwrap()),
                    "orig_map_comment": out.original_source_map.source_map_comment,
                    "has_orig_map": out.original_source_map.source.is_some(),
                })
            }
        }
    }

    pub fn main() {
        std::panic::set_hook(Box::new(|_| {}));
        let stdin = std::io::stdin();
        let stdout = std::io::stdout();
        for line in stdin.lock().lines() {
            let line = match line { Ok(l) => l, Err(_) => break };
            if line.trim().is_empty() { continue; }
            let req: Value = match serde_json::from_str(&line) { Ok(v) => v, Err(e) => { let mut o = stdout.lock(); writeln!(o, "{}", json!({"ok": false, "err": format!("bad request: {e}")})).ok(); continue; } };
            let mut ans = handle(&req);
            ans["id"] = req["id"].clone();
            let mut o = stdout.lock();
            writeln!(o, "{}", ans).ok();
            o.flush().ok();
        }
    }
}
