
// Appended by /verif to a scratch copy of /repo/src/rewriter.rs (never committed to /repo).
pub fn verif_normalize(code: String, file: &str, _config: &Config) -> Result<String> {
    let compiler = Compiler::new(Arc::new(swc_common::SourceMap::new(FilePathMapping::empty())));
    try_with_handler(compiler.cm.clone(), default_handler_opts(), |handler| {
        let source_file = compiler
            .cm
            .new_source_file(Arc::new(FileName::Real(PathBuf::from(file))), code);
        let program = parse_js(&source_file, handler, &compiler)?;
        let print_args = PrintArgs { ..Default::default() };
        compiler.print(&program, print_args).map(|o| o.code)
    })
}

pub fn verif_parse_stmts(code: String) -> Vec<Stmt> {
    let compiler = Compiler::new(Arc::new(swc_common::SourceMap::new(FilePathMapping::empty())));
    let program_result = try_with_handler(compiler.cm.clone(), default_handler_opts(), |handler| {
        let source_file = compiler
            .cm
            .new_source_file(Arc::new(FileName::Real(PathBuf::from("inline.js".to_string()))), code);
        parse_js(&source_file, handler, &compiler)
    });
    if let Ok(Program::Script(script)) = program_result {
        return script.body;
    }
    Vec::new()
}
