fn main() {
    native_iast_rewriter::verif_replay::main();
}
